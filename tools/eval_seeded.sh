#!/bin/sh
# usage: tools/eval_seeded.sh [--no-suite] <id> ...   -- evaluate delivered seeded changes /tmp/seeded/<id> one after the other
cd "$(dirname "$0")/.." || exit 2
ns=""
if [ "$1" = "--no-suite" ]; then ns="--no-suite"; shift; fi
for x in "$@"; do
  python3 tools/seeded.py /tmp/seeded/$x $x $ns 2>&1 | grep -v "^WARNING" | python3 -c "
import sys,json
s=sys.stdin.read()
try:
    d=json.loads(s[s.index('{'):])
    print(d['id'],'confirmed',d['confirmed'],'suite',d['suite'],'caught',d['check']['caught'],d['check']['invariants'],d['check']['wall_s'])
except Exception as e:
    print('$x','EVALUATION FAILED:',s[-300:].replace(chr(10),' '))
"
done
