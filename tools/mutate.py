#!/usr/bin/env python3
"""Sensitivity testing: apply one small source mutation to /repo, run a check, undo it.

usage: mutate.py <mutant-name>|--all [--prop Cnn] [--runs N] [--suite] [--tier quick] [--worktree]
Mutants are (file, old, new) single-occurrence replacements listed in mutants/mutants.json:
  {"name": {"property": "C14", "file": "passlib/totp.py", "old": "...", "new": "...", "note": "..."}}
Results are appended to mutants/results.jsonl. /repo is always restored (git checkout -- <file>).
"""
import json, os, subprocess, sys, time

VERIF = os.path.dirname(os.path.dirname(os.path.abspath(__file__)))
os.environ["VERIF_EVIDENCE_DIR"] = "/tmp/verif-sensitivity-evidence"  # never overwrite the unchanged tree's evidence
REPO = "/repo"
WT = None


def run(cmd, **kw):
    return subprocess.run(cmd, shell=True, capture_output=True, text=True, **kw)


def main():
    args = sys.argv[1:]
    muts = json.load(open(os.path.join(VERIF, "mutants", "mutants.json")))
    names = [a for a in args if not a.startswith("--")]
    opt = {}
    it = iter(args)
    for a in it:
        if a in ("--prop", "--runs", "--tier"):
            opt[a[2:]] = next(it)
            names = [n for n in names if n != opt[a[2:]]]
    if "--all" in args:
        names = sorted(n for n in muts if not muts[n].get("equivalent"))
        if "prop" in opt:
            names = [n for n in names if muts[n]["property"] == opt["prop"]]
    global REPO, WT
    if "--worktree" in args:
        # mutate a private worktree instead of /repo itself, so that other work against /repo can go on meanwhile
        WT = f"/tmp/mut-wt-{os.getpid()}"
        run(f"git -C /repo worktree add --detach {WT} HEAD")
        REPO = WT
        os.environ["VERIF_REPO_ROOT"] = WT
    dirty = run(f"git -C {REPO} status --porcelain").stdout.strip()
    if dirty:
        print("refusing: /repo has uncommitted changes:\n" + dirty)
        return 2
    rc = 0
    for name in names:
        m = muts[name]
        edits = [m] + list(m.get("more", []))
        ok = True
        for e in edits:
            src = open(os.path.join(REPO, e["file"])).read()
            if src.count(e["old"]) != 1:
                print(f"{name}: pattern occurs {src.count(e['old'])} times in {e['file']} -- skipped")
                ok = False
        if not ok:
            rc = 2
            continue
        try:
            for e in edits:
                path = os.path.join(REPO, e["file"])
                src = open(path).read()
                open(path, "w").write(src.replace(e["old"], e["new"]))
            suite = None
            if "--suite" in args:
                p = run(f"/venv/bin/python {VERIF}/tools/baseline_check.py {REPO}")
                suite = p.returncode == 0
            prop = opt.get("prop", m["property"])
            t0 = time.time()
            cmd = f"cd {VERIF} && ./check {prop} --tier {opt.get('tier', 'quick')}"
            if "runs" in opt:
                cmd += f" --runs {opt['runs']}"
            p = run(cmd)
            wall = time.time() - t0
            viol = [l for l in p.stdout.splitlines() if l.startswith("VIOLATION")]
            inv = [l.strip() for l in p.stdout.splitlines() if l.strip().startswith("invariant=")]
            res = {"mutant": name, "property": prop, "exit": p.returncode, "caught": p.returncode == 1 and bool(viol),
                   "violations": len(viol), "invariants": sorted({i.split()[0] for i in inv}), "wall_s": round(wall, 1),
                   "suite_passes": suite, "tier": opt.get("tier", "quick"), "runs": opt.get("runs")}
            print(json.dumps(res))
            if p.returncode not in (0, 1):
                print(p.stdout[-1500:], p.stderr[-1500:])
            with open(os.path.join(VERIF, "mutants", "results.jsonl"), "a") as fh:
                fh.write(json.dumps(res) + "\n")
        finally:
            run(f"git -C {REPO} checkout -- .")
    if WT:
        run(f"git -C /repo worktree remove --force {WT}")
        run("git -C /repo worktree prune")
    else:
        run(f"rm -f {VERIF}/replays/C*.json")
    return rc


if __name__ == "__main__":
    sys.exit(main())
