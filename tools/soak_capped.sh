#!/bin/sh
# usage: tools/soak_capped.sh "<props>" <seed> <wall-cap seconds>   -- thorough tier with a reduced wall cap per property
props="$1"; seed="$2"; cap="$3"; bad=0
if [ -n "$VP_RUN_REPO" ]; then export VERIF_REPO_ROOT="$VP_RUN_REPO"; echo "soaking against $VERIF_REPO_ROOT"; fi
for p in $props; do
  out=$(VERIF_SEED=$seed ./check $p --tier thorough --wall-cap $cap 2>&1); rc=$?
  echo "seed=$seed $p exit=$rc $(echo "$out" | grep '^done' | cut -c1-160)"
  if [ $rc -ne 0 ]; then bad=1; echo "$out" | grep -v '^KNOWN' | tail -12; fi
done
exit $bad
