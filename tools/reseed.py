#!/usr/bin/env python3
"""Regression test of the checks themselves: re-apply every kept seeded change (seeded/<id>/patch.diff) to a private worktree
of /repo and run the property's quick check against it (VERIF_REPO_ROOT); every change must still be caught.

usage: reseed.py [<id> ...] [--tier quick]        results: seeded/reseed_results.jsonl (appended), exit 1 if any is missed
/repo itself is never touched; evidence of these runs goes to a scratch directory.
"""
import json, os, subprocess, sys, time

VERIF = os.path.dirname(os.path.dirname(os.path.abspath(__file__)))
os.environ["VERIF_EVIDENCE_DIR"] = "/tmp/verif-sensitivity-evidence"


def run(cmd, **kw):
    return subprocess.run(cmd, shell=True, capture_output=True, text=True, **kw)


def main():
    args = [a for a in sys.argv[1:] if not a.startswith("--")]
    tier = sys.argv[sys.argv.index("--tier") + 1] if "--tier" in sys.argv else "quick"
    args = [a for a in args if a != tier]
    ids = args or sorted(d for d in os.listdir(os.path.join(VERIF, "seeded")) if os.path.exists(os.path.join(VERIF, "seeded", d, "patch.diff")))
    wt = f"/tmp/reseed-wt-{os.getpid()}"
    run(f"git -C /repo worktree add --detach {wt} HEAD")
    rdir = f"/tmp/reseed-replays-{os.getpid()}"
    missed = []
    try:
        for sid in ids:
            d = os.path.join(VERIF, "seeded", sid)
            meta = json.load(open(os.path.join(d, "meta.json")))
            prop = meta["property"]
            ap = run(f"git -C {wt} apply --whitespace=nowarn {os.path.join(d, 'patch.diff')}")
            if ap.returncode:
                # (a change that re-introduces a defect fixed since, or touches lines a later fix: commit changed, may not apply)
                res = {"id": sid, "property": prop, "applies": False, "note": ap.stderr.strip()[:200]}
            else:
                t0 = time.time()
                env = dict(os.environ, VERIF_REPO_ROOT=wt)
                p = run(f"cd {VERIF} && ./check {prop} --tier {tier}", env=env)
                viol = [l for l in p.stdout.splitlines() if l.startswith("VIOLATION")]
                inv = sorted({l.strip().split()[0].replace("invariant=", "") for l in p.stdout.splitlines() if l.strip().startswith("invariant=")})
                res = {"id": sid, "property": prop, "applies": True, "exit": p.returncode, "caught": p.returncode == 1 and bool(viol),
                       "invariants": inv, "wall_s": round(time.time() - t0, 1), "tier": tier}
                if not res["caught"]:
                    missed.append(sid)
                for l in viol:
                    rp = l.split("replay=")[1].strip()
                    if os.path.exists(rp):
                        os.remove(rp)
            run(f"git -C {wt} checkout -- . && git -C {wt} clean -fdq")
            print(json.dumps(res), flush=True)
            with open(os.path.join(VERIF, "seeded", "reseed_results.jsonl"), "a") as fh:
                fh.write(json.dumps(res) + "\n")
    finally:
        run(f"git -C /repo worktree remove --force {wt}")
        run("git -C /repo worktree prune")
    print("missed:", missed)
    return 1 if missed else 0


if __name__ == "__main__":
    sys.exit(main())
