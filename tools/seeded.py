#!/usr/bin/env python3
"""Confirm and evaluate one seeded change (made by an independent sub-agent that saw only the property text).

usage: seeded.py <src_dir> <id> [--tier quick|thorough] [--no-suite] [--runs N]
  <src_dir> holds patch.diff, demo.py, meta.json (as delivered); <id> e.g. C14-a
Steps (against a private scratch worktree of /repo's HEAD, removed afterwards; /repo itself is never touched, so several
evaluations -- and ordinary check runs against /repo -- can go on at the same time):
  1. demo.py passes on the unchanged tree
  2. patch applies; demo.py fails with it
  3. the pinned suite still passes with it (baseline_check.py)
  4. ./check <property> is run with the patch applied; caught = exit 1 with a VIOLATION line
  5. everything is recorded in /verif/seeded/<id>/ (patch.diff, demo.py, meta.json)
"""
import json, os, shutil, subprocess, sys, time

VERIF = os.path.dirname(os.path.dirname(os.path.abspath(__file__)))
os.environ["VERIF_EVIDENCE_DIR"] = "/tmp/verif-sensitivity-evidence"  # never overwrite the unchanged tree's evidence
REPO = "/repo"


def run(cmd, **kw):
    return subprocess.run(cmd, shell=True, capture_output=True, text=True, **kw)


def main():
    src, sid = sys.argv[1], sys.argv[2]
    tier = sys.argv[sys.argv.index("--tier") + 1] if "--tier" in sys.argv else "quick"
    runs = sys.argv[sys.argv.index("--runs") + 1] if "--runs" in sys.argv else None
    meta_in = json.load(open(os.path.join(src, "meta.json")))
    prop = meta_in.get("property") or sid.split("-")[0]
    global REPO
    wt = f"/tmp/seed-wt-{os.getpid()}"
    if run(f"git -C /repo worktree add --detach {wt} HEAD").returncode:
        print("cannot create a scratch worktree")
        return 2
    REPO = wt
    os.environ["VERIF_REPO_ROOT"] = wt
    try:
        return _evaluate(src, sid, tier, runs, meta_in, prop)
    finally:
        run(f"git -C /repo worktree remove --force {wt}")
        run("git -C /repo worktree prune")


def _evaluate(src, sid, tier, runs, meta_in, prop):
    out = {"id": sid, "property": prop, "summary": meta_in.get("summary"), "needs": meta_in.get("needs"), "files": meta_in.get("files"),
           "author": "independent sub-agent given only the property text and a scratch worktree", "agent_tests_run": meta_in.get("tests_run")}
    env = dict(os.environ, PYTHONPATH=REPO)
    demo = os.path.join(src, "demo.py")
    p0 = run(f"/venv/bin/python {demo}", env=env, cwd="/tmp", timeout=600)
    out["demo_unchanged_exit"] = p0.returncode
    ap = run(f"git -C {REPO} apply --whitespace=nowarn {os.path.join(src, 'patch.diff')}")
    if ap.returncode:
        print("patch does not apply:", ap.stderr[:500])
        return 2
    try:
        p1 = run(f"/venv/bin/python {demo}", env=env, cwd="/tmp", timeout=600)
        out["demo_patched_exit"] = p1.returncode
        out["demo_patched_output"] = (p1.stdout + p1.stderr)[-600:]
        if "--no-suite" not in sys.argv:
            ps = run(f"/venv/bin/python {VERIF}/tools/baseline_check.py {REPO}")
            out["suite_passes_with_change"] = ps.returncode == 0
            out["suite_line"] = ps.stdout.strip().splitlines()[-1] if ps.stdout.strip() else ps.stderr[-200:]
        t0 = time.time()
        cmd = f"cd {VERIF} && ./check {prop} --tier {tier}" + (f" --runs {runs}" if runs else "")
        pc = run(cmd, timeout=7200)
        viol = [l for l in pc.stdout.splitlines() if l.startswith("VIOLATION")]
        sigs = sorted({l.strip().split(" signature=")[0].replace("invariant=", "") for l in pc.stdout.splitlines() if l.strip().startswith("invariant=")})
        done = [l for l in pc.stdout.splitlines() if l.startswith("done ")]
        out["check"] = {"cmd": cmd.split("&& ")[1], "exit": pc.returncode, "caught": pc.returncode == 1 and bool(viol), "violation_lines": len(viol),
                        "invariants": sigs, "wall_s": round(time.time() - t0, 1), "done_line": done[-1][:200] if done else None}
        # keep one replay next to the record
        dst = os.path.join(VERIF, "seeded", sid)
        os.makedirs(dst, exist_ok=True)
        if viol:
            rp = viol[0].split("replay=")[1].strip()
            if os.path.exists(rp):
                shutil.copy(rp, os.path.join(dst, "replay.json"))
                rr = run(f"cd {VERIF} && ./check {prop} --replay {os.path.join(dst, 'replay.json')}")
                out["check"]["replay_reproduces"] = rr.returncode == 1
    finally:
        run(f"git -C {REPO} checkout -- .")
    dst = os.path.join(VERIF, "seeded", sid)
    os.makedirs(dst, exist_ok=True)
    shutil.copy(os.path.join(src, "patch.diff"), os.path.join(dst, "patch.diff"))
    shutil.copy(demo, os.path.join(dst, "demo.py"))
    out["confirmed"] = bool(out["demo_unchanged_exit"] == 0 and out.get("demo_patched_exit") not in (0, None) and out.get("suite_passes_with_change", True))
    # merge with earlier evaluations of the same change (e.g. quick then thorough)
    mp = os.path.join(dst, "meta.json")
    if os.path.exists(mp):
        old = json.load(open(mp))
        hist = old.get("check_history", [])
        if old.get("check"):
            hist.append(old["check"])
        out["check_history"] = hist
        for k in ("suite_passes_with_change", "suite_line"):
            if k not in out and k in old:
                out[k] = old[k]  # an earlier evaluation ran the suite; --no-suite re-evaluations keep its verdict
    json.dump(out, open(mp, "w"), indent=1)
    for l in viol:
        rp = l.split("replay=")[1].strip()
        if os.path.exists(rp):
            os.remove(rp)
    print(json.dumps({k: out[k] for k in ("id", "property", "confirmed", "demo_unchanged_exit", "demo_patched_exit")} | {"suite": out.get("suite_passes_with_change"), "check": out["check"]}, indent=1))
    return 0


if __name__ == "__main__":
    sys.exit(main())
