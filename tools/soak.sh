#!/bin/sh
# usage: tools/soak.sh "<props>" "<seeds>" [tier]   -- runs each check per seed; prints one line per run; exit 1 if any run is not clean
props="$1"; seeds="$2"; tier="${3:-quick}"; bad=0
# under `vp run --with-repo` use the snapshot of /repo, so that mutation testing in /repo itself does not disturb the soak
if [ -n "$VP_RUN_REPO" ]; then export VERIF_REPO_ROOT="$VP_RUN_REPO"; echo "soaking against $VERIF_REPO_ROOT"; fi
for s in $seeds; do for p in $props; do
  out=$(VERIF_SEED=$s ./check $p --tier $tier 2>&1); rc=$?
  echo "seed=$s $p exit=$rc $(echo "$out" | grep '^done' | cut -c1-160)"
  if [ $rc -ne 0 ]; then bad=1; echo "$out" | grep -v '^KNOWN' | tail -12; fi
done; done
exit $bad
