#!/usr/bin/env python3
"""Run the repository's pinned suite (guard off -- there are no hooks) and compare with /root/.vp/BASELINE.json:
every test in stable_pass must still pass. Usage: baseline_check.py [repo_root] [-n workers]"""
import json, os, subprocess, sys, tempfile, xml.etree.ElementTree as ET

root = sys.argv[1] if len(sys.argv) > 1 and not sys.argv[1].startswith("-") else "/repo"
workers = "8"
if "-n" in sys.argv:
    workers = sys.argv[sys.argv.index("-n") + 1]
base = json.load(open("/root/.vp/BASELINE.json"))
want = set(base["stable_pass"])
with tempfile.TemporaryDirectory() as td:
    xml = os.path.join(td, "junit.xml")
    env = dict(os.environ)
    env.pop("PASSLIB_VERIF", None)
    env["PYTHONPATH"] = root
    cmd = ["/venv/bin/python", "-m", "pytest", "-q", "-p", "no:cacheprovider", "--timeout=900",
           "--continue-on-collection-errors", f"--junitxml={xml}"]
    if workers != "0":
        cmd += ["-n", workers]
    p = subprocess.run(cmd, cwd=root, env=env, capture_output=True, text=True)
    passed, failed = set(), set()
    for tc in ET.parse(xml).getroot().iter("testcase"):
        tid = (tc.get("classname") or "") + "::" + (tc.get("name") or "")
        if tc.find("failure") is not None or tc.find("error") is not None:
            failed.add(tid)
        elif tc.find("skipped") is None:
            passed.add(tid)
    passed -= failed
missing = sorted(want - passed)
print(p.stdout.strip().splitlines()[-1] if p.stdout.strip() else p.stderr[-500:])
print(f"baseline stable_pass={len(want)} still passing={len(want & passed)} missing={len(missing)} total passed={len(passed)} failed={len(failed)}")
for m in missing[:40]:
    print("  MISSING", m)
sys.exit(1 if missing else 0)
