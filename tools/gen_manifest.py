#!/usr/bin/env python3
"""Regenerate /verif/MANIFEST.json from the tables below (keeps it valid and consistent)."""
import json, os

VERIF = os.path.dirname(os.path.dirname(os.path.abspath(__file__)))

NA = {
    "C01": "hash()->verify() is a pure function of password, settings and salt; no schedule, clock, fault or shared state to search",
    "C02": "bit-exact agreement with published algorithms needs independent reference implementations over an input sweep; a simulator contributes nothing",
    "C05": "truncation/size behaviour is a pure function of the password bytes and two settings",
    "C07": "parse/re-render is a pure function of the hash string",
    "C11": "cryptographic primitives are pure functions (only MD4's chunked update() is stream-like, too small a part to decide the property)",
    "C12": "codecs are pure finite functions; exhaustive enumeration, not simulation, is the right tool",
    "C17": "shipped contexts are constant data plus a capability list fixed at import; attribution is a function of that list and the hash string",
    "C20": "libpass/passlib interop is a pure function of (password, salt, cost, scheme list)",
}

PLANNED = {
    "C03": "backends", "C04": "credstore", "C06": "entropy", "C08": "credstore", "C09": "derive", "C10": "credstore",
    "C13": "totp", "C14": "totp", "C15": "totp", "C16": "htfile", "C18": "credstore", "C19": "lazyinit",
}

# property -> dict(level, text, note, technique, design_ref); only properties whose check is built and clean
CHECKS = {
    "C03": dict(
        level="exploration",
        technique="deterministic simulation with fault injection at the crypt(3) and bcrypt-library seams: seeded backend-switch histories, one-outcome-per-(hasher,secret,settings) oracle across backends",
        text="Seeded search over histories of set_backend / has_backend / hash / verify / all-backend cross-checks on the nine multi-backend "
             "hashers and their ldap_/django_ wrappers, each run in a fresh forked process so that 'no backend loaded yet' is part of the state. "
             "The real crypt(3) and the real bcrypt wheel sit behind proxies that inject NULL / error-token / OSError / bytes / damaged answers, "
             "capability loss, import failure and missing distribution metadata (a vendored bcrypt). Oracle: one outcome per (hasher, secret, settings) over the whole history whatever backend is "
             "active (incl. non-UTF-8, NUL, 72/73/255/512-byte secrets); a backend reported available is selectable and works; has_backend is a "
             "dry run and passlib.registry.has_backend(name or object, backend, safe=) gives the handler's answer; failed switches change nothing; crypt(3) failure falls back transparently for the six crypt-family formats.",
        note="Trusted: libxcrypt and the bcrypt wheel as mutual references (no third implementation). Minimum costs only. Known findings F12a/F12b "
             "(bcrypt os_crypt has no fallback) are listed in known_findings.json. Digests under *damaged* crypt answers are not judged (outside the statement).",
        design_ref="DESIGN.md section 4, C03"),
    "C04": dict(
        level="exploration",
        technique="deterministic simulation: seeded login/policy-change histories on a user table against an executable PolicyModel, with the library's random source owned by the simulator (stream / range-minimum / range-maximum) and costs read by an independent field extractor",
        text="An application around a CryptContext is simulated: a user table that evolves as logins rewrite hashes, legacy records imported "
             "at costs below/at/inside/above the limits, policy updates, categories with partial overrides, and the process-wide random source "
             "(salts, vary_rounds) replaced by a simulator-owned source that also hands out the extreme draws. After every operation the "
             "answer (attribution, default scheme, cost of new hashes, needs_update, the three verify_and_update outcomes, fixed point of "
             "repeated logins, independence of the order in which the lazily built record caches were filled) is compared with an independent "
             "~200-line PolicyModel; costs come from an independent regular-expression field extractor, never from passlib's parsers.",
        note="Imported legacy records include bcrypt '$2a$' hashes with stray padding bits (flagged by the scheme itself); needs_update also receives the record as bytes. In a quarter of the runs the simulated host's crypt(3) knows none of the formats, so the pure-Python backends serve (elsewhere: this image's libcrypt). <=5 schemes from a 43-scheme cheap palette (incl. {CRYPT}- and bcrypt$-prefixed wrappers), given by name or (one of them, 20% of runs) as a pre-configured hasher object; the 'rounds' option and bcrypt_sha256's version option included, categories admin/staff (+ an unknown one), <=40 ops, well-formed configurations only. "
             "Exact vary_rounds ranges are not modelled (only: inside window and hard limits). Trusted: PolicyModel (refmodels/policy.py), extractor.",
        design_ref="DESIGN.md section 4 and Appendix B, C04"),
    "C06": dict(
        level="exploration",
        technique="deterministic simulation with the library's random source as the owned seam (recording / scripted / extreme SimRandom on passlib.utils.rng and secrets._sysrand): conditional-bijection check between recorded draws and produced values, bit-flip fault injection at the source, exhaustive scripted enumeration for spaces <= 2^16, Chernoff-bounded statistics",
        text="The single SystemRandom object every generator in passlib draws from (and libpass' secrets source) is replaced by a simulator-owned "
             "source that records each request and can be scripted. For every produced value (random bytes/strings, salts of 15 hashers x "
             "admissible sizes read back by the independent extractor, salts of the other 33 registered handlers that draw one (read back "
             "through the handler's own parser; cisco_type7's integer salt as a 16-value space), TOTP keys, application secrets, generated words/phrases, django_disabled "
             "suffixes, libpass salts, salts of passlib.ext.django's hasher adapter after a call with an explicit salt, salts of an application handler on passlib's framework whose generation alphabet is narrower than the accepted one, byte draws and salts beyond one 64-byte block (65-1024 bytes), new TOTP keys of the default size on a factory that has loaded keys of another algorithm) the run sees draws and value side by side: size and alphabet; the draws must be able to cover the declared "
             "space; when draw space and value space have the same size, uniformity is equivalent to injectivity, which is checked over the "
             "sample and by flipping single bits of a recorded answer and replaying (the value must change); for spaces <= 2^16 ALL "
             "answers of the source are enumerated and every declared value must be produced equally often (exhaustive sub-case, also when "
             "draw space and value space differ in size); otherwise per-position frequencies and bit correlation between adjacent symbols with "
             "Chernoff/7-sigma bounds; requested entropy is carried by the draws; all-zero / all-one / counter / single-bit sources never yield a "
             "malformed value; a CryptContext refuses every way of pinning a salt and keeps drawing fresh ones. Weaker fit: no schedule or "
             "fault decides C06; the technique contributes ownership of the random-source seam.",
        note="Uniformity is relative to the owned source. Statistical cells: Chernoff tail bound 1e-13 / 7 sigma. AppWallet salts cannot run (no 'cryptography').",
        design_ref="DESIGN.md section 4, C06"),
    "C08": dict(
        level="exploration",
        technique="deterministic simulation with storage-fault injection on durable records (byte substitution/loss/duplication/insertion, torn tail, misdirected record, field swap, NUL/non-ASCII, numeric field rewritten to an aliasing value, documented respelling, bytes for text; cold start: records written by an earlier process); thorough tier enumerates the single-fault neighbourhood; independent field extractor as oracle",
        text="Stored hashes of a generated user table (49-format palette incl. sun_md5_crypt, fshp, scram (also through verify(full=True)), cisco_type7, bigcrypt, django_des_crypt, the LDAP / Django / MS-SQL / Oracle / grub / "
             "Atlassian families and {CRYPT}- / bcrypt$-prefixed wrappers; optional unix_disabled / plaintext at the end) are damaged the way "
             "storage damages records and pushed through the login path -- identify, verify, needs_update, verify_and_update on the bare handler "
             "and on the context, as text and bytes. identify must answer without raising; everything else answers or raises ValueError/TypeError; "
             "if the original password still verifies, an independent extractor must decode the same cost, salt bits, digest bits and variant from "
             "both strings (value-exact; accepted spellings: hex case, padding bits, '=' padding at the end, zero padding where a format allows it, bcrypt "
             "2a/2b/2y, LDAP scheme-name case, and the two equivalences MS-SQL 2000 documents: only the upper-case digest takes part in "
             "verification, and the record's first 54 characters are the MS-SQL 2005 hash of the same password). Damage kinds added in round 10: a letter pair replaced by the non-ASCII character that case-maps onto it (ligature ff, long s ...), the bytes a hexadecimal record spells handed over as bytes; the substitution / insertion alphabet holds newline, CR, TAB, '!', signs and non-ASCII digits. Thorough: every position x 21 substitute bytes, all deletions, duplications, insertions, truncations per record.",
        note="In a quarter of the runs the simulated host's crypt(3) knows none of the formats, so the pure-Python backends serve (elsewhere: this image's libcrypt). Bounded: palette formats only, single faults (15% cumulative); records whose damaged cost field asks for > ~30000 rounds / bcrypt cost > 8 are "
             "counted but not pushed through verify. The extractor takes ASCII digits only in decimal fields (F39, repaired: passlib used to read them with int()).",
        design_ref="DESIGN.md section 4 and Appendix C, C08"),
    "C09": dict(
        level="exploration",
        technique="deterministic simulation: seeded interleavings of several clients deriving and using hashers from the shared passlib.hash objects, random source pinned by the simulator, per-node sequential settings model + non-interference snapshots of every untouched hasher",
        text="2-4 simulated clients run interleaved programs against the same process-wide hasher objects: derive(node, settings, relaxed) "
             "and derive-from-derived up to depth 4 (min/max/default/vary rounds and their aliases, rounds, salt_size, ident (text or bytes, alias or canonical spelling), version, block_size, "
             "parallelism, fshp variant in every documented spelling, truncate_error, marker; ints or strings; inside, at and beyond the hard limits), hash, needs_update on probe hashes "
             "below/at/inside/above the window, attribute writes on a client's own derived hasher, backend switches, use of the globals. With the "
             "random source pinned every hash is a deterministic string, so 'exactly as before' is compared bit for bit: before and after every "
             "operation the snapshot (23 public attributes, verify/needs_update/identify on constant probe hashes, pinned-salt hash for cheap "
             "nodes) of every hasher the operation did not touch -- the globals and every parent in particular -- must be identical. The touched "
             "node is compared with a sequential model of using(): cost = default clipped into the window (or inside it when varying), salt size, "
             "ident and algorithm variant (fshp variant, bcrypt_sha256 version, scrypt block_size / parallelism as carried by the hash), truncation policy, "
             "needs_update exactly outside the window, ValueError beyond hard limits when strict, clamped when relaxed, never a hash outside them.",
        note="Which inconsistent min/max/default combinations must be refused is not modelled (a refusal is always accepted). 34-hasher palette (incl. cisco_type7's integer salt); scram, sun_md5_crypt and "
             "argon2 are outside it. Interleaving is at operation granularity (line-level interleaving of using() itself is C19's scheduler, not used here).",
        design_ref="DESIGN.md section 4, C09"),
    "C10": dict(
        level="fault_enumeration",
        technique="deterministic simulation with enumerated fault points: for each seeded (configuration, change) every failure point of the rebuild is visited (k-th using() call raising x 5 exception types, 21 kinds of invalid item x every insertion position, policy-file faults per 64-byte block / line boundary), observable snapshot compared before/after",
        text="The policy lives in three durable forms (dict, INI text in a simulated policy file, the live object); an admin changes it and the "
             "application restarts from an exported form. For each generated (configuration, change) the failure space of the rebuild is "
             "enumerated, not sampled: a counting dry run learns N, the number of customisation calls, then the change is attempted with the "
             "k-th call raising for every k in 1..N and five exception types (FaultyHasher = subclass of the real handler given in schemes=); "
             "every kind of invalid item at every insertion position of the change; the policy file missing, unreadable (3 errnos), failing "
             "after each 64-byte block, truncated at every line boundary and inside the header, wrong section, not UTF-8. After each attempt "
             "a structural snapshot, and after each block the full snapshot (to_dict, to_string, schemes, defaults per category, context_kwds, "
             "identify / needs_update per category / verify right+wrong on probe hashes at low/middle/high cost, hash() under a pinned random "
             "source) must be identical. Export/import through dict, resolved dict, INI string (two sections), file and copy must preserve the "
             "snapshot; update() must equal a rebuild from the merged dictionary; the same valid or offending change applied as the VERY FIRST access to an unused LazyCryptContext (keywords or onload) and to an ordinary context of the same configuration must give the same answer and the same state. Exported configurations also carry settings that are neither costs nor salts (bcrypt_sha256 version, scrypt block_size / parallelism, unix_disabled marker with '%').",
        note="In a quarter of the runs the simulated host's crypt(3) knows none of the formats, so the pure-Python backends serve (elsewhere: this image's libcrypt). In 30% of the runs a scheme that takes the context keyword user= (postgres_md5, oracle10, cisco_pix) is configured and every probing call "
             "carries user=, which the context must keep filtering for the other schemes. "
             "Enumeration is complete per generated (configuration, change) within: <=5 schemes, <=2 categories, the 21 invalid-item kinds, 5 exception "
             "types; configurations themselves are sampled. Upper-case category names do not survive INI (ConfigParser lower-cases) and are outside the domain.",
        design_ref="DESIGN.md section 4, C10"),
    "C13": dict(
        level="exploration",
        technique="deterministic simulation (seeded discrete-event histories under a simulated clock; 2-3 caller threads stepped by a seeded baton scheduler) with an independent RFC 4226/6238 reference as oracle",
        text="Seeded exploration: every token a simulated device emits -- real TOTP.generate() reading the simulated, skewed and "
             "stepping device clock, or given int/float/aware/naive datetime times placed on and around period boundaries up to 2^40 -- "
             "is compared with an independent HOTP/TOTP reference, together with counter, validity interval, remaining/valid under the "
             "same clock, and all key spellings; histories include key rotation on a live object (TOTP.key assigned after the object has "
             "generated and been serialised: its codes must follow the new secret); in 7% of the runs 2-3 caller threads (own or one shared TOTP object) generate, match and verify at once under the baton scheduler of C19 (pre-emption at every source line): the module keeps no per-call state, every code is still the RFC's. Weaker fit: the truth of C13 does not depend on a schedule; the simulator only owns the "
             "clock seam. Evidence over sampled histories, not proof.",
        note="Trusted: the ~10-line reference HOTP (stdlib hmac+struct). Keys 1-64 bytes, sha1/256/512 (15% of accounts: sha224/384, sha3_224/256/512, blake2b/s), digits 6-10, periods 1-3600, times < 2^40 and, in 4% of runs, 2^56..2^60; key text decorated with ASCII or Unicode blanks, dashes, padding, lower case.",
        design_ref="DESIGN.md section 4, C13"),
    "C14": dict(
        level="exploration",
        technique="deterministic discrete-event simulation with fault injection (clock skew/steps, delayed/duplicated/dropped/reordered/replayed submissions, server restarts), reference matcher + history invariants + bounded liveness",
        text="Seeded search over histories of a simulated login service: devices with skewed/stepping clocks, a network that delays, "
             "duplicates, drops and reorders submissions, an attacker replaying and forging codes, server clock steps, restarts from "
             "the durable record and key rotation on the live server object. Every server decision of the real TOTP.match() -- a quarter of them through the stateless one-shot "
             "TOTP.verify(token, serialised or live source, ...) -- is compared with a reference matcher written from the "
             "statement, evaluated at the time the server's clock actually returned (recorded at the seam); accepted counters must strictly "
             "increase per account; in fault-free runs an in-sync device's fresh code must be accepted at first delivery. Two steered "
             "scenarios reach what random histories cannot: 'collide' lets the reference search 1500-4000 counters for two with the same "
             "code, moves the clock into the later one's period, submits and replays it (earliest-first clause); 'sweep' enumerates a small "
             "box exhaustively (periods 1-5 x windows 0-7 x skews -2..2 x last-counter offsets x every time in a range x 7 neighbouring "
             "codes). Submitted codes come as text, bytes, ints, with ASCII blanks/dashes or Unicode blanks; 4% of the runs have clocks set absurdly wrong (2^56..2^60 s). One seed = one replayable history; failures are minimised to a replay file.",
        note="Trusted: reference HOTP and the 25-line reference matcher. Bounds: <=3 accounts, <=120 ops/run, periods 1-3600, windows 0-900 (2% of runs: one submission under a window of 40000-70000 periods), tokens as digit strings/bytes/non-negative ints.",
        design_ref="DESIGN.md section 4, C14"),
    "C15": dict(
        level="exploration",
        technique="deterministic simulation: provisioning messages and durable records are the serialised forms; restarts and hostile/corrupted sources are injected faults; field-by-field and token oracle",
        text="In the totp world every provisioning (URI/JSON/dict through a stock or the same using()-factory, the generic or the format's own loader, to_uri with explicit label/issuer; a LIVE object handed to from_source() of a factory with another wallet and its own / the library's / different class defaults) and every server restart from "
             "its durable record is a serialisation round trip, checked field by field and by codes at three probe times against the reference; "
             "22 kinds of inconsistent/incomplete/truncated sources (conflicting issuers also when they merely look alike: case, folded accents, blanks; secrets that are empty or separators only; a parameter repeated with a blank value) must raise ValueError; a quarter of the loads read the same text a second time after the first loaded object was re-keyed and relabelled; after a key rotation on the live server object its "
             "devices are re-provisioned from its serialised form. Weaker fit: round-tripping is a pure function; the "
             "simulator supplies the histories (restart, reprovision, re-key) and hostile labels/issuers/class defaults.",
        note="AppWallet encryption cannot run (no 'cryptography' package on this image) and is not claimed. Labels/issuers without ':' and without leading/trailing blanks.",
        design_ref="DESIGN.md section 4, C15"),
    "C16": dict(
        level="exploration",
        technique="deterministic simulation with fault injection: seeded operation histories on HtpasswdFile/HtdigestFile over a simulated file system and mtime clock, second bound object, external editor, I/O faults (open/read/short-write/ENOSPC), clock steps; independent reader + document model as oracle",
        text="Seeded search over edit histories (set_password, set_hash, delete, delete_realm, check_password, get_hash, users, realms, load, "
             "load_string, load_if_changed, save, to_string) on up to three objects -- an admin tool (autosave on/off), a server bound to the same "
             "path, an unbound copy -- starting from generated files (comments, blank lines, duplicates, CRLF, no final newline, leading blanks, "
             "malformed lines), both classes, utf-8/latin-1, text/bytes arguments, default and custom contexts with deprecated schemes. The file "
             "system, its mtime clock (granularity 1 ns .. 2 s, ticks below/above it, steps back), an external editor rewriting the file directly "
             "(between operations, or -- fault write_during_read -- while a load has consumed N bytes of the old content) "
             "and armed I/O faults are simulated; copies are saved to / loaded from a second path and objects are re-bound. After every operation the export (and after every save the file) is parsed by an independent "
             "20-line reader (also after accepting a name that collides with the file syntax, e.g. one that starts with '#': accepted means present in the export) and must equal the document model's users/hashes, each once, with untouched items in original order; return values, "
             "check_password answers, hash upgrade on deprecated schemes, refusal of invalid names, atomic load, intact memory after a failed "
             "save and the load_if_changed/mtime contract are checked.",
        note="<=6 users x <=3 realms (in UTF-8 files also names that are not in Unicode normal form), 5 passwords, <=40 ops; refused names: separators, every ASCII control character, > 255 bytes (also 128 two-byte characters). Nothing is asserted about the content of a file torn by a failed save. Plaintext-scheme "
             "records only in UTF-8 files. Trusted: the independent reader/document model (refmodels/htfile.py).",
        design_ref="DESIGN.md section 4, C16"),
    "C18": dict(
        level="exploration",
        technique="deterministic simulation: seeded disable/enable/login histories on stored records interleaved with policy updates and export/import restarts; reference grammar of disabled records; dummy-verification cost observed through a counting hasher at the digest seam",
        text="Account records (a hash of any palette scheme, None, empty, a bare marker, either marker style with an embedded original, a "
             "Django-style unusable password) evolve under disable (with/without the current hash), disable again, enable, logins with the "
             "right / wrong / empty password and with the record text itself, is_enabled, with unix_disabled (markers '!'/'*', configured "
             "or default) or django_disabled at a random list position (optionally with the other disabled-account handler behind it, and with plaintext / "
             "ldap_plaintext listed last, which also claims marker-prefixed text); records are handed over as text or bytes (a normal hash must come back as the very value given), with policy updates and restarts in between, and with 'neighbour' contexts / using() variants that carry another marker created mid-history (each keeps its own); a third of the contexts have user categories with their own overrides and the verifying calls carry category=; the longest possible record (plaintext of a 4096-character password) is among the user shapes; verification against None is also asked of a sibling context whose truncating default scheme refuses over-long passwords. A reference grammar decides every answer; which scheme "
             "owns a record is computed without the context (first configured scheme whose own identify() claims it) and the context's "
             "identify() is judged against it; 'verification against None costs a dummy verification' is observed deterministically as digest "
             "computations of the default scheme counted through a counting subclass given in schemes= (one per call, one more right after "
             "construction or a policy (re)load); a scheme that takes a context keyword (postgres_md5, oracle10, msdcc, msdcc2) may join the live context, also as its default scheme -- verification against None stays False. Weaker fit: disable/enable are string functions; the simulator supplies histories and the "
             "counting seam.",
        note="In a quarter of the runs the simulated host's crypt(3) knows none of the formats, so the pure-Python backends serve (elsewhere: this image's libcrypt). Strings the attribution rule gives to another scheme than the grammar expects ('*' + 40 hex is also mysql41; everything is plaintext) "
             "are outside the model: mysql41 is not combined with disabled-account schemes, plaintext schemes are listed last only.",
        design_ref="DESIGN.md section 4, C18"),
    "C19": dict(
        level="exploration",
        technique="deterministic simulation of real threads: seeded baton-passing scheduler pre-empting at sys.settrace line/opcode events (sticky walk, PCT, hot-spot, uniform, park-one-thread-mid-operation), fork-per-run fresh first-use state, cooperative locks; per-thread outcome vs single-thread outcome",
        text="Each run forks a process in which nothing has been used yet, builds one first-use object (LazyCryptContext with/without "
             "onload or with an onload that fails once, a shipped preset, a multi-backend hasher (in 40% of these runs on a host whose crypt(3) knows none of the formats, so that the first candidate backend is tried and found unusable mid-selection and the pure-Python backends with their lazily built tables are the ones initialised; the same host in 30% of the context / registry / preset runs), a lazy base64 engine, an unloaded registry name, the pure-Python Blowfish engine (constant tables built on first use), a context's record "
             "caches, the digest-info cache, passlib.pwd's word sets, a libpass context, an application's own handler module registered by path "
             "together with a lazy PrefixWrapper around one of its handlers) or an initialised shared context with a "
             "non-reentrant crypt(3) model, and lets 2-3 real "
             "threads make their first calls (on lazy contexts also: a copy taken by copy.copy / deepcopy / .copy() and then used; for the registry also: sibling names hosted by one not-yet-imported module, first "
             "verify through a freshly imported handler, and enumeration of a pre-populated registry while other threads load entries) while a seeded scheduler decides at every source line of /repo code who runs next. Every "
             "lock object the library keeps is replaced by a cooperative lock with the same semantics, so parked threads never block "
             "the simulator and deadlocks are detected; in a share of the runs importlib's per-module import locks wait cooperatively "
             "too and module / class bodies of imports made by the threads are pre-emptible (a half-built module sits in sys.modules). Each thread's outcomes must equal those of the same calls made by one thread in "
             "another fresh process. A failing schedule is kept as its switch list, minimised, and replays bit-identically.",
        note="Samples schedules (PCT depth <=3, sticky p 0.005-0.3, hot-spot plans on 17 anchor functions); pre-emption between source lines "
             "(bytecodes in hot functions in the thorough tier) under the GIL build; code in C is not interleaved; module bodies of imports are "
             "interleaved only in runs with preempt_imports (70% of registry runs, 10-25% elsewhere).",
        design_ref="DESIGN.md sections 3.4 and 4, C19"),
}


def main():
    checks = []
    for pid in sorted(CHECKS):
        c = CHECKS[pid]
        checks.append({
            "property_id": pid,
            "quick_cmd": f"./check {pid} --tier quick",
            "thorough_cmd": f"./check {pid} --tier thorough",
            "evidence_file": f"/verif/evidence/{pid}.json",
            "replay_cmd_template": f"./check {pid} --replay {{path}}",
            "engine": "simkit",
            "level_claimed": {"category": c["level"], "text": c["text"], "design_ref": c["design_ref"]},
            "level_note": c["note"],
            "technique": c["technique"],
        })
    na = [{"property_id": p, "reason": r} for p, r in sorted(NA.items())]
    for p, w in sorted(PLANNED.items()):
        if p not in CHECKS:
            na.append({"property_id": p, "reason": f"check not built yet (planned: world '{w}', DESIGN.md section 4); not claimed until it is"})
    man = {
        "version": 1,
        "setup_cmd": "/venv/bin/python -B -c \"import sys; sys.path.insert(0, '/verif'); import passlib, libpass, simkit.core, simkit.cli; print('simkit ready')\"",
        "hooks": {
            "guard": "PASSLIB_VERIF",
            "enable": "no source hooks are needed: every seam is an existing parameter (TOTP.using(now=), rng=, handler objects in schemes=) "
                      "or a module-level name the harness rebinds in its own process (passlib.utils._crypt, passlib.utils.rng, "
                      "passlib.apache.open/os, the two locks); DESIGN.md section 2",
            "baseline_off_cmd": "/venv/bin/python /verif/tools/baseline_check.py",
            "source_commits": [],
            "add_only": True,
        },
        "engines": [{"name": "simkit", "path": "/verif/simkit", "serves_properties": sorted(CHECKS),
                     "kind_free_text": "deterministic simulation with fault injection: seeded program generator, fork-per-run isolation, "
                                       "simulated clock / network / file system / random source / crypt(3) / thread scheduler, reference-model "
                                       "oracles, ddmin shrinker, JSON replay files"}],
        "checks": checks,
        "notes": "See DESIGN.md. ./check <id> --selftest proves determinism (same seeds, other worker count, other PYTHONHASHSEED, fresh "
                 "interpreter). known_findings.json lists repaired defects (status fixed: suppress nothing) and known findings.",
        "not_applicable": na,
    }
    with open(os.path.join(VERIF, "MANIFEST.json"), "w") as fh:
        json.dump(man, fh, indent=1)
        fh.write("\n")
    print("MANIFEST.json:", len(checks), "checks,", len(na), "not applicable / not yet built")


if __name__ == "__main__":
    main()
