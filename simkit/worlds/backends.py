"""world `backends` -- property C03 (DESIGN.md section 4).

Seeded histories of backend switches, availability queries, hash/verify calls and faults injected at
the crypt(3) and bcrypt-library seams. Oracle: every (hasher, secret, settings) has ONE outcome over
the whole history, whatever backend is active and whatever the OS interface did; a backend reported
available can be selected and works; failed switches change nothing.

Real: all passlib handlers and their pure-Python backends, crypt(3) (libxcrypt via legacycrypt) and the
bcrypt wheel behind the fault-injecting proxies, hashlib.scrypt. Stub: SimCrypt / BcryptProxy fronts.
"""

from __future__ import annotations

import os
import sys
import warnings

from simkit.core import dec, enc
from simkit.seams import BcryptProxy, SimCrypt

NAME = "backends"
RULE = {
    "C03": "seeded histories (10-60 ops) of set_backend / has_backend / hash / verify / all-backend cross-checks over the "
           "multi-backend hashers and their ldap_/django_ wrappers, with per-call faults at the crypt(3) and bcrypt seams and "
           "capability loss; every outcome is compared with the one recorded for the same (hasher, secret, settings); a run is "
           "non-trivial if >=1 digest was compared under >=2 different backends or under a fired fault; distinct = distinct "
           "(final active-backend vector, set of fault kinds fired, set of hashers touched, outcome classes)",
}
FAULT_KINDS = {"C03": ["crypt_none", "crypt_oserror", "crypt_star0", "crypt_colon", "crypt_empty", "crypt_bytes",
                       "crypt_truncated", "crypt_wrong_prefix", "crypt_garbage", "crypt_capability_loss",
                       "bcrypt_truncated", "bcrypt_wrong_prefix", "bcrypt_garbage", "bcrypt_import_blocked", "bcrypt_metadata_missing"]}
COMPONENTS = {
    "real": ["passlib.utils.handlers.BackendMixin/SubclassBackendMixin/HasManyBackends/PrefixWrapper",
             "passlib.handlers.{des_crypt,md5_crypt,sha1_crypt,sha2_crypt,bcrypt,scrypt} incl. pure-Python backends",
             "passlib.utils.safe_crypt/test_crypt", "crypt(3) = libxcrypt via legacycrypt (behind SimCrypt)",
             "bcrypt wheel (behind BcryptProxy)", "hashlib.scrypt"],
    "stub": ["SimCrypt (fault-injecting front of crypt(3))", "BcryptProxy (fault-injecting front of the bcrypt module)"],
    "unavailable": ["'scrypt' package backend (not installed; reported unavailable, as it must be)"],
}
ASSUMPTIONS = {"*": ["minimum costs only (sha-crypt 1000-5000 rounds, bcrypt 4-5, scrypt ln<=4, bsdi <=99 rounds)",
                     "injected crypt(3) outcomes are the ones real libcs produce: NULL, error tokens, OSError, bytes, or a damaged string"]}

H64 = "./0123456789ABCDEFGHIJKLMNOPQRSTUVWXYZabcdefghijklmnopqrstuvwxyz"

# name -> (family, crypt scheme tag, base hasher name)
HASHERS = {
    "des_crypt": ("crypt", "des", "des_crypt"),
    "bsdi_crypt": ("crypt", "bsdi", "bsdi_crypt"),
    "md5_crypt": ("crypt", "md5", "md5_crypt"),
    "sha1_crypt": ("crypt", "sha1", "sha1_crypt"),
    "sha256_crypt": ("crypt", "sha256", "sha256_crypt"),
    "sha512_crypt": ("crypt", "sha512", "sha512_crypt"),
    "ldap_des_crypt": ("crypt", "des", "des_crypt"),
    "ldap_bsdi_crypt": ("crypt", "bsdi", "bsdi_crypt"),
    "ldap_md5_crypt": ("crypt", "md5", "md5_crypt"),
    "ldap_sha1_crypt": ("crypt", "sha1", "sha1_crypt"),
    "ldap_sha256_crypt": ("crypt", "sha256", "sha256_crypt"),
    "ldap_sha512_crypt": ("crypt", "sha512", "sha512_crypt"),
    "bcrypt": ("bcrypt", "bcrypt", "bcrypt"),
    "ldap_bcrypt": ("bcrypt", "bcrypt", "bcrypt"),
    "django_bcrypt": ("bcrypt", "bcrypt", "bcrypt"),
    "bcrypt_sha256": ("bcrypt", "bcrypt", "bcrypt"),
    "django_bcrypt_sha256": ("bcrypt", "bcrypt", "bcrypt"),
    "scrypt": ("scrypt", None, "scrypt"),
}


def scheme_of(config):
    if config.startswith("$2"):
        return "bcrypt"
    if config.startswith("$1$"):
        return "md5"
    if config.startswith("$5$"):
        return "sha256"
    if config.startswith("$6$"):
        return "sha512"
    if config.startswith("$sha1$"):
        return "sha1"
    if config.startswith("_"):
        return "bsdi"
    if not config.startswith("$"):
        return "des"
    return "other"


# ---------------------------------------------------------------------------------------------
# generation
# ---------------------------------------------------------------------------------------------
def _gen_secret(rng):
    cls = rng.choice(["empty", "ascii", "ascii", "ascii", "utf8", "utf8", "nonutf8", "nonutf8", "nul", "len", "len", "highbit"])
    if cls == "empty":
        v = ""
    elif cls == "ascii":
        v = "".join(rng.choice("abcXYZ019 !$%") for _ in range(rng.randint(1, 12)))
    elif cls == "utf8":
        v = "".join(rng.choice(["é", "ß", "漢", "ё", "a", "z", "\U0001f600", "£"]) for _ in range(rng.randint(1, 9)))
    elif cls == "nonutf8":
        v = bytes(rng.choice([0xff, 0xfe, 0x80, 0xc3, 0xa3, 0x61, 0x7a]) for _ in range(rng.randint(1, 10)))
        try:
            v.decode("utf-8")
            v = v + b"\xff"
        except UnicodeDecodeError:
            pass
    elif cls == "highbit":
        v = bytes(rng.choice([0xa3, 0xc2, 0x80, 0x55, 0xaa, 0xff]) for _ in range(rng.randint(1, 8)))
    elif cls == "nul":
        v = rng.choice(["a\x00b", "\x00", "abc\x00", b"\x00x", b"\xff\x00"])
    else:
        n = rng.choice([1, 7, 8, 9, 55, 56, 63, 64, 71, 72, 73, 74, 128, 255, 256, 511, 512, 513, 700])
        ch = rng.choice(["a", "é", "x"])
        v = (ch * n)[:n]
        if rng.random() < 0.3:
            v = v.encode("utf-8")[:n]
            try:
                v.decode("utf-8")
            except UnicodeDecodeError:
                cls = "nonutf8"
    if isinstance(v, str) and rng.random() < 0.25 and cls not in ("nul",):
        v = v.encode("utf-8")
    return {"cls": cls, "v": enc(v)}


def _salt(rng, n, alphabet=H64):
    return "".join(rng.choice(alphabet) for _ in range(n))


def _gen_settings(rng, hname):
    fam, tag, base = HASHERS[hname]
    if base == "des_crypt":
        return {"salt": _salt(rng, 2)}
    if base == "bsdi_crypt":
        return {"salt": _salt(rng, 4), "rounds": rng.choice([1, 3, 5, 25, 99, 725])}
    if base == "md5_crypt":
        return {"salt": _salt(rng, rng.choice([0, 1, 7, 8]))}
    if base == "sha1_crypt":
        return {"salt": _salt(rng, rng.choice([0, 1, 8, 16, 64])), "rounds": rng.choice([1, 2, 20, 100])}
    if base in ("sha256_crypt", "sha512_crypt"):
        return {"salt": _salt(rng, rng.choice([0, 1, 8, 15, 16])), "rounds": rng.choice([1000, 1001, 1234, 5000])}
    if hname in ("bcrypt", "ldap_bcrypt", "django_bcrypt"):
        s = {"salt": _salt(rng, 21) + rng.choice(".Oeu"), "rounds": rng.choice([4, 4, 5])}
        if hname == "bcrypt":
            s["ident"] = rng.choice(["2a", "2b", "2b", "2y", "2"])
        return s
    if hname in ("bcrypt_sha256", "django_bcrypt_sha256"):
        s = {"salt": _salt(rng, 21) + rng.choice(".Oeu"), "rounds": 4}
        if hname == "bcrypt_sha256" and rng.random() < 0.4:
            s["version"] = 1
        return s
    if base == "scrypt":
        salt = enc(bytes(rng.getrandbits(8) for _ in range(rng.choice([0, 1, 8, 16]))))
        if rng.random() < 0.06:
            # wide settings: little work (ln=1) but many / large blocks -- the memory estimate handed to hashlib.scrypt matters
            r, p = rng.choice([(8, 258), (8, 300), (32, 66), (32, 80), (64, 40), (1, 2100)])
            return {"salt": salt, "rounds": 1, "block_size": r, "parallelism": p}
        return {"salt": salt, "rounds": rng.choice([1, 2, 3, 4]), "block_size": rng.choice([1, 2, 8]), "parallelism": rng.choice([1, 2])}
    raise AssertionError(hname)


def generate(rng, prop, tier):
    faults_on = rng.random() < 0.6
    builtin_bcrypt = rng.random() < 0.12
    names = sorted(HASHERS)
    nh = rng.randint(1, 4)
    palette = rng.sample(names, nh)
    if rng.random() < 0.5 and "bcrypt" not in palette:
        palette[0] = rng.choice(["bcrypt", "bcrypt", "bcrypt_sha256", "django_bcrypt"])
    keys = []
    for h in palette:
        for _ in range(rng.randint(1, 3)):
            keys.append({"h": h, "secret": _gen_secret(rng), "settings": _gen_settings(rng, h)})
    ops = []
    nops = rng.randint(10, 45 if tier == "quick" else 70)
    n_builtin_bcrypt = 0
    for _ in range(nops):
        r = rng.random()
        k = rng.randrange(len(keys))
        h = keys[k]["h"]
        fam, tag, base = HASHERS[h]
        backends = {"crypt": ["os_crypt", "builtin"], "bcrypt": ["bcrypt", "os_crypt", "builtin"],
                    "scrypt": ["stdlib", "scrypt", "builtin"]}[fam]
        if r < 0.38:
            ops.append({"op": "hash", "key": k, "mode": rng.choice(["hash", "hash", "verify"])})
        elif r < 0.58:
            name = rng.choice(backends + backends + ["any", "default", "nope"])
            via = rng.choice(["self", "self", "base", "derived"])
            ops.append({"op": "set_backend", "h": h, "name": name, "via": via})
        elif r < 0.68:
            ops.append({"op": "has_backend", "h": h, "name": rng.choice(backends + ["any", "nope"])})
        elif r < 0.80:
            ops.append({"op": "cross", "key": k})
        elif faults_on:
            r2 = rng.random()
            if r2 < 0.55:
                ops.append({"op": "crypt_fault", "kind": rng.choice(list(SimCrypt.NONE_LIKE) + ["bytes"] + list(SimCrypt.MALFORMED)),
                            "n": rng.choice([1, 1, 2, 5])})
                ops.append({"op": "hash", "key": k, "mode": rng.choice(["hash", "verify"])})
            elif r2 < 0.75:
                ops.append({"op": "capability_loss", "scheme": rng.choice(["des", "bsdi", "md5", "sha1", "sha256", "sha512", "bcrypt", tag or "md5"]),
                            "restore": rng.random() < 0.3})
            elif r2 < 0.9:
                ops.append({"op": "bcrypt_fault", "kind": rng.choice(["truncated", "wrong_prefix", "garbage"]), "n": 1})
                ops.append({"op": "hash", "key": k, "mode": "hash"})
            elif r2 < 0.95:
                ops.append({"op": "bcrypt_import", "blocked": rng.random() < 0.7})
            else:
                # a vendored / zipped copy of the bcrypt package: the module imports, its distribution metadata cannot be found
                ops.append({"op": "bcrypt_metadata", "missing": rng.random() < 0.8})
                ops.append({"op": "set_backend", "h": h, "name": rng.choice(["bcrypt", "default", "any"]) if fam == "bcrypt" else "any", "via": "self"})
        else:
            ops.append({"op": "hash", "key": k, "mode": "hash"})
    return {"cfg": {"keys": keys, "builtin_bcrypt": builtin_bcrypt, "faults_on": faults_on}, "ops": ops}


def simplify_op(op):
    if op.get("op") == "crypt_fault" and op.get("n", 1) > 1:
        return [dict(op, n=1)]
    if op.get("op") == "set_backend" and op.get("via") != "self":
        return [dict(op, via="self")]
    return []


def simplify_cfg(cfg):
    out = []
    if cfg.get("builtin_bcrypt"):
        out.append(dict(cfg, builtin_bcrypt=False))
    for i, k in enumerate(cfg["keys"]):
        v = dec(k["secret"]["v"])
        if len(v) > 1:
            for nv in (v[:1], v[: len(v) // 2]):
                c = dict(cfg)
                c["keys"] = list(cfg["keys"])
                c["keys"][i] = dict(k, secret=dict(k["secret"], v=enc(nv)))
                out.append(c)
    return out


# ---------------------------------------------------------------------------------------------
# execution
# ---------------------------------------------------------------------------------------------
def _classify(e):
    from passlib import exc

    if isinstance(e, exc.InternalBackendError):
        return "InternalBackendError"
    if isinstance(e, exc.MissingBackendError):
        return "MissingBackendError"
    if isinstance(e, exc.PasslibSecurityError):
        return "PasslibSecurityError"
    if isinstance(e, RuntimeError):
        return "RuntimeError"
    if isinstance(e, ValueError):
        return "ValueError"
    if isinstance(e, TypeError):
        return "TypeError"
    return type(e).__name__


class _World:
    def __init__(self, cfg, ctx):
        self.ctx = ctx
        self.cfg = cfg
        if cfg.get("builtin_bcrypt"):
            os.environ["PASSLIB_BUILTIN_BCRYPT"] = "1"
        else:
            os.environ.pop("PASSLIB_BUILTIN_BCRYPT", None)
        self.crypt = SimCrypt(ctx)
        self._install_crypt()
        self.bproxy = BcryptProxy(ctx).install()
        self.real_bcrypt = self.bproxy._real
        self.import_blocked = False
        self.ref = {}  # key index -> ("ok", hash) | ("exc", cls)
        self.ref_backend = {}
        self.compared_backends = {}
        self.touched = set()
        self.outcomes = set()

    def _install_crypt(self):
        crypt = self.crypt
        real_call = SimCrypt.__call__

        # capability loss is per scheme family, not per literal prefix
        def call(secret, config, _crypt=crypt):
            if scheme_of(config) in _crypt.lost_schemes:
                _crypt.calls += 1
                _crypt.fired.append("capability_loss")
                self.ctx.fault("crypt_capability_loss")
                return None
            return real_call(_crypt, secret, config)

        crypt.lost_schemes = set()
        import passlib.utils as pu

        pu._crypt = call

    def hasher(self, name):
        import passlib.hash

        return getattr(passlib.hash, name)

    def base(self, name):
        return self.hasher(HASHERS[name][2])

    def _stash_faults(self):
        st = (list(self.crypt.armed), list(self.bproxy._armed))
        self.crypt.armed.clear()
        self.bproxy._armed.clear()
        return st

    def _unstash(self, st):
        self.crypt.armed[:] = st[0]
        self.bproxy._armed[:] = st[1]

    def _fired(self):
        return self.crypt.reset_fired() + ["bcrypt_" + k for k in self.bproxy.reset_fired()]

    # -- one digest computation through the public API ------------------------------------------
    def compute(self, key):
        H = self.hasher(key["h"])
        secret = dec(key["secret"]["v"])
        settings = {k: dec(v) for k, v in key["settings"].items()}
        with warnings.catch_warnings():
            warnings.simplefilter("ignore")
            try:
                out = H.using(**settings).hash(secret)
                return ("ok", out)
            except Exception as e:  # classified, judged by the caller
                return ("exc", _classify(e), f"{type(e).__name__}: {e}"[:300])

    def active(self, hname):
        """name of the active backend (loads the default one if none is loaded yet)"""
        with warnings.catch_warnings():
            warnings.simplefilter("ignore")
            return self.hasher(hname).get_backend()

    def judge(self, ki, out, fired, where):
        """compare an outcome for key ki with the reference for that key"""
        ctx = self.ctx
        key = self.cfg["keys"][ki]
        hname = key["h"]
        fam = HASHERS[hname][0]
        try:
            backend = self.active(hname)
        except Exception as e:
            backend = f"?{type(e).__name__}"
        cls = out[1] if out[0] == "exc" else "digest"
        ctx.log("out", ki, where, backend, out[:2], fired)
        sv = dec(key["secret"]["v"])
        sb = sv.encode("utf-8") if isinstance(sv, str) else sv
        try:
            sb.decode("utf-8")
            is_utf8 = True
        except UnicodeDecodeError:
            is_utf8 = False
        # what crypt(3) can take on this host: valid UTF-8 (python's wrapper), < 512 bytes (libxcrypt), no NUL
        attrs = {"hasher": HASHERS[hname][2], "backend": backend, "secret_utf8": is_utf8, "secret_512_or_longer": len(sb) >= 512,
                 "secret_has_nul": b"\x00" in sb}
        if out[0] == "exc" and out[1] not in ("ValueError", "InternalBackendError", "MissingBackendError"):
            # (every generated secret/setting is type-correct, so a TypeError is an internal error too)
            ctx.fail("C03", "backend-internal-error", f"{where}: {hname} backend={backend} secret={key['secret']} "
                     f"settings={key['settings']} raised {out[2]}", exc=out[1], **attrs)
        ref = self.ref.get(ki)
        if not fired:
            if out[0] == "exc" and out[1] in ("InternalBackendError", "MissingBackendError"):
                none_available = fam == "bcrypt" and self.import_blocked and "bcrypt" in self.crypt.lost_schemes
                lost_active = backend == "os_crypt" and fam == "bcrypt" and "bcrypt" in self.crypt.lost_schemes
                if not (none_available or lost_active):
                    ctx.check(False, "C03", "backend-error-without-fault", f"{where}: {hname} backend={backend} raised {out[2]}",
                              exc=out[1], **attrs)
                return
            if ref is None and fam == "scrypt" and hname == "scrypt":
                # an independent reference for scrypt: hashlib.scrypt called directly with ample memory
                import base64
                import hashlib

                st = {k: dec(v) for k, v in key["settings"].items()}
                try:
                    dg = hashlib.scrypt(sb, salt=st["salt"], n=1 << st["rounds"], r=st["block_size"], p=st["parallelism"], maxmem=1 << 30, dklen=32)
                    b64 = lambda b: base64.b64encode(b).decode("ascii").rstrip("=")
                    ref = ("ok", f"$scrypt$ln={st['rounds']},r={st['block_size']},p={st['parallelism']}${b64(st['salt'])}${b64(dg)}")
                    self.ref[ki] = ref
                    self.ref_backend[ki] = "hashlib-direct"
                    self.compared_backends[ki] = {"hashlib-direct"}
                    ctx.probe("scrypt_reference_direct")
                except Exception:
                    ref = None
            if ref is None:
                self.ref[ki] = out[:2]
                self.ref_backend[ki] = backend
                self.compared_backends[ki] = {backend}
                return
            self.compared_backends[ki].add(backend)
            ctx.check(out[:2] == ref, "C03", "backends-disagree",
                      lambda: f"{where}: {hname} secret={key['secret']} settings={key['settings']}: backend {backend} gave "
                              f"{out[:3]}, backend {self.ref_backend[ki]} gave {ref}",
                      outcomes="|".join(sorted([cls, "digest" if ref[0] == "ok" else ref[1]])),
                      backends="|".join(sorted({backend, self.ref_backend[ki]})),
                      os_crypt_involved="os_crypt" in (backend, self.ref_backend[ki]),
                      **{k: v for k, v in attrs.items() if k != "backend"})
            if len(self.compared_backends[ki]) > 1:
                ctx.nontrivial = True
                ctx.probe("digest_compared_across_backends")
            return
        # a fault fired during this call
        ctx.nontrivial = True
        malformed = any(f in SimCrypt.MALFORMED or f.startswith("bcrypt_") for f in fired)
        nonelike = any(f in SimCrypt.NONE_LIKE or f == "capability_loss" for f in fired)
        if out[0] == "exc" and out[1] == "InternalBackendError":
            if fam == "crypt" and not malformed:
                ctx.fail("C03", "no-transparent-fallback", f"{where}: {hname} under crypt(3) fault {fired} raised {out[2]} "
                         f"instead of falling back to the builtin digest", fault=fired[0], **attrs)
            ctx.probe("backend_error_under_fault")
            return
        if out[0] == "exc" and out[1] == "MissingBackendError":
            ctx.probe("missing_backend_under_fault")
            return
        if malformed and not nonelike:
            # A *damaged* answer from crypt(3)/bcrypt is not something the statement of C03 speaks about: passlib's
            # plausibility check of the answer is best-effort (e.g. an answer cut by 3 characters passes it for
            # sha512_crypt with an empty salt). Only the exception class was judged above; the digest is not.
            ctx.probe("damaged_answer_not_detected" if (ref is not None and out[:2] != ref) else "damaged_answer_harmless")
            return
        if ref is not None:
            ctx.check(out[:2] == ref, "C03", "wrong-result-under-fault",
                      lambda: f"{where}: {hname} secret={key['secret']} settings={key['settings']} under fault {fired} "
                              f"(backend {backend}) gave {out[:3]}, reference {ref}",
                      fault=fired[0], got=cls, **attrs)
            if nonelike and fam == "crypt" and out[0] == "ok":
                ctx.probe("fallback_to_builtin_taken")

    # -- ops ---------------------------------------------------------------------------------------
    def op_hash(self, op):
        ki = op["key"]
        if ki >= len(self.cfg["keys"]):
            return
        key = self.cfg["keys"][ki]
        self.touched.add(key["h"])
        if ki not in self.ref:
            st = self._stash_faults()
            out = self.compute(key)
            self._fired()
            self.judge(ki, out, [], "reference")
            self._unstash(st)
        ref = self.ref.get(ki)
        if op.get("mode") == "verify" and ref and ref[0] == "ok":
            H = self.hasher(key["h"])
            secret = dec(key["secret"]["v"])
            with warnings.catch_warnings():
                warnings.simplefilter("ignore")
                try:
                    r = H.verify(secret, ref[1])
                    out = ("ok", ref[1]) if r is True else ("ok", f"verify={r!r}")
                except Exception as e:
                    out = ("exc", _classify(e), f"{type(e).__name__}: {e}"[:300])
            fired = self._fired()
            self.judge(ki, out, fired, "verify")
            if not fired and not self.crypt.armed and not self.crypt.lost_schemes and not self.import_blocked:
                try:
                    with warnings.catch_warnings():
                        warnings.simplefilter("ignore")
                        w = H.verify("wrong-pw-é", ref[1])
                except Exception as e:
                    w = f"{type(e).__name__}"
                self._fired()
                self.ctx.check(w is False, "C03", "wrong-password-verifies", f"{key['h']} verify(wrong) -> {w!r} against {ref[1]}",
                               hasher=HASHERS[key["h"]][2])
        else:
            out = self.compute(key)
            self.judge(ki, out, self._fired(), "hash")
        self.outcomes.add(out[1] if out[0] == "exc" else "digest")

    def op_set_backend(self, op):
        ctx = self.ctx
        hname = op["h"]
        H = self.hasher(hname)
        self.touched.add(hname)
        target = H
        if op["via"] == "base":
            target = self.base(hname)
        elif op["via"] == "derived":
            try:
                with warnings.catch_warnings():
                    warnings.simplefilter("ignore")
                    target = H.using()
            except Exception:
                target = H
        attrs = {"hasher": HASHERS[hname][2], "backend": op["name"]}
        try:
            prev = self.active(hname)
        except Exception as e:
            prev = None
            f0 = self._fired()
            cls = _classify(e)
            # (a library that answers garbage during the backend's self-test is reported broken: RuntimeError)
            if cls != "MissingBackendError" and not (f0 and cls in ("RuntimeError", "InternalBackendError", "PasslibSecurityError")):
                ctx.fail("C03", "get-backend-raises", f"{hname}.get_backend(): {type(e).__name__}: {e}", exc=cls,
                         hasher=HASHERS[hname][2])
        armed = bool(self.crypt.armed or self.bproxy._armed)
        with warnings.catch_warnings():
            warnings.simplefilter("ignore")
            try:
                target.set_backend(op["name"])
                res = "ok"
            except Exception as e:
                res = _classify(e)
                detail = f"{type(e).__name__}: {e}"[:300]
        fired = self._fired()
        ctx.log("set_backend", hname, op["name"], op["via"], res)
        fam = HASHERS[hname][0]
        valid = {"crypt": ["os_crypt", "builtin"], "bcrypt": ["bcrypt", "os_crypt", "builtin"],
                 "scrypt": ["stdlib", "scrypt", "builtin"]}[fam] + ["any", "default"]
        if op["name"] not in valid:
            ctx.check(res == "ValueError", "C03", "unknown-backend-not-refused", f"{hname}.set_backend({op['name']!r}) -> {res}", **attrs)
        if res not in ("ok", "MissingBackendError", "ValueError", "PasslibSecurityError") and not (
                fired and res in ("RuntimeError", "InternalBackendError")):
            ctx.fail("C03", "set-backend-internal-error", f"{hname}.set_backend({op['name']!r}) via {op['via']}: {detail}",
                     exc=res, **attrs)
        try:
            now = self.active(hname if op["via"] != "derived" else hname)
        except Exception:
            now = None
        self._fired()
        if res != "ok":
            # a failed switch leaves the previously active backend in force
            ctx.check(prev is None or now == prev, "C03", "failed-switch-changed-backend",
                      f"{hname}: set_backend({op['name']!r}) raised {res} but active backend went {prev} -> {now}", **attrs)
            if res == "MissingBackendError" and op["name"] in valid and not fired and not armed:
                self._expect_unavailable(hname, op["name"])
        elif op["name"] not in ("any", "default") and op["via"] != "derived":
            ctx.check(now == op["name"], "C03", "switch-not-effective", f"{hname}: set_backend({op['name']!r}) ok but active is {now}", **attrs)

    def _expect_unavailable(self, hname, name):
        """a backend refused without any injected fault must be one this host really lacks"""
        fam, tag, base = HASHERS[hname]
        lacking = False
        if name == "scrypt" and fam == "scrypt":
            lacking = True  # package not installed
        if name == "builtin" and fam == "bcrypt" and not self.cfg.get("builtin_bcrypt"):
            lacking = True  # needs PASSLIB_BUILTIN_BCRYPT
        if name == "bcrypt" and self.import_blocked:
            lacking = True
        if name == "os_crypt" and tag in self.crypt.lost_schemes:
            lacking = True
        if name in ("any", "default"):
            lacking = fam == "bcrypt" and self.import_blocked and "bcrypt" in self.crypt.lost_schemes and not self.cfg.get("builtin_bcrypt")
        self.ctx.check(lacking, "C03", "supported-backend-refused",
                       f"{hname}: backend {name!r} is supported by this host but set_backend refused it",
                       hasher=base, backend=name)

    def op_has_backend(self, op):
        ctx = self.ctx
        hname = op["h"]
        H = self.hasher(hname)
        attrs = {"hasher": HASHERS[hname][2], "backend": op["name"]}
        try:
            prev = self.active(hname)
        except Exception:
            prev = None
        self._fired()
        armed = bool(self.crypt.armed or self.bproxy._armed)
        with warnings.catch_warnings():
            warnings.simplefilter("ignore")
            try:
                r = H.has_backend(op["name"])
            except Exception as e:
                r = _classify(e)
                detail = f"{type(e).__name__}: {e}"[:300]
        fired = self._fired()
        ctx.log("has_backend", hname, op["name"], r)
        if op["name"] == "nope":
            ctx.check(r == "ValueError", "C03", "unknown-backend-not-refused", f"{hname}.has_backend('nope') -> {r!r}", **attrs)
            return
        if r not in (True, False):
            if fired and r in ("RuntimeError", "InternalBackendError", "PasslibSecurityError", "MissingBackendError"):
                # the backend's self-test ran into an injected damaged/failed answer: reporting the backend broken is right
                ctx.probe("self_test_hit_by_fault")
                return
            ctx.fail("C03", "has-backend-raises", f"{hname}.has_backend({op['name']!r}): {detail}", exc=r, **attrs)
        try:
            now = self.active(hname)
        except Exception:
            now = None
        self._fired()
        ctx.check(prev is None or now == prev, "C03", "has-backend-switched", f"{hname}.has_backend({op['name']!r}) changed active {prev} -> {now}", **attrs)
        if r is False and not fired and not armed and op["name"] != "any":
            self._expect_unavailable(hname, op["name"])
        ctx.probe("has_backend_true" if r else "has_backend_false")
        if r in (True, False) and not fired and not armed and op["name"] != "any":
            # the registry-level spelling of the same question (hasher by name or as object, safe or not): same answer
            import passlib.registry as preg

            spell = ctx.n_ops % 4
            with warnings.catch_warnings():
                warnings.simplefilter("ignore")
                try:
                    r2 = preg.has_backend(hname if spell % 2 == 0 else H, op["name"], safe=spell >= 2)
                except Exception as e:
                    r2 = _classify(e)
            f2 = self._fired()
            if not f2:
                ctx.check(r2 == r, "C03", "registry-answer-differs", f"passlib.registry.has_backend({hname!r}, {op['name']!r}, safe={spell >= 2}) -> {r2!r}; "
                          f"{hname}.has_backend({op['name']!r}) -> {r!r}", **attrs)

    def op_cross(self, op):
        """the same key under every backend the hasher lists"""
        ctx = self.ctx
        ki = op["key"]
        if ki >= len(self.cfg["keys"]):
            return
        key = self.cfg["keys"][ki]
        hname = key["h"]
        H = self.hasher(hname)
        self.touched.add(hname)
        st = self._stash_faults()
        try:
            prev = self.active(hname)
        except Exception:
            prev = None
        n_builtin = 0
        for b in self.base(hname).backends:
            attrs = {"hasher": HASHERS[hname][2], "backend": b}
            with warnings.catch_warnings():
                warnings.simplefilter("ignore")
                try:
                    hb = H.has_backend(b)
                except Exception as e:
                    self._fired()
                    ctx.fail("C03", "has-backend-raises", f"{hname}.has_backend({b!r}): {type(e).__name__}: {e}"[:400],
                             exc=_classify(e), **attrs)
                try:
                    H.set_backend(b)
                    sb = "ok"
                except Exception as e:
                    sb = _classify(e)
                    detail = f"{type(e).__name__}: {e}"[:300]
            self._fired()
            if hb:
                ctx.check(sb == "ok", "C03", "available-backend-not-selectable",
                          lambda: f"{hname}: has_backend({b!r}) is True but set_backend raised {detail}", exc=sb, **attrs)
                out = self.compute(key)
                self.judge(ki, out, self._fired(), f"cross[{b}]")
                ctx.probe("cross_backend_" + b)
            else:
                ctx.check(sb == "MissingBackendError", "C03", "unavailable-backend-selectable",
                          f"{hname}: has_backend({b!r}) is False but set_backend -> {sb}", **attrs)
                self._expect_unavailable(hname, b)
        if prev:
            try:
                with warnings.catch_warnings():
                    warnings.simplefilter("ignore")
                    H.set_backend(prev)
            except Exception:
                pass
        self._fired()
        self._unstash(st)

    def op_fault(self, op):
        k = op["op"]
        if k == "crypt_fault":
            self.crypt.arm(op["kind"], op.get("n", 1))
        elif k == "capability_loss":
            if op.get("restore"):
                self.crypt.lost_schemes.discard(op["scheme"])
            else:
                self.crypt.lost_schemes.add(op["scheme"])
        elif k == "bcrypt_fault":
            self.bproxy.arm(op["kind"], op.get("n", 1))
        elif k == "bcrypt_metadata":
            import importlib.metadata as im

            if not hasattr(self, "_real_md_version"):
                self._real_md_version = im.version
            real = self._real_md_version

            def version(name):
                if name == "bcrypt":
                    raise im.PackageNotFoundError(name)
                return real(name)

            im.version = version if op["missing"] else real
            if op["missing"]:
                self.ctx.fault("bcrypt_metadata_missing")
        elif k == "bcrypt_import":
            self.import_blocked = bool(op["blocked"])
            if self.import_blocked:
                sys.modules["bcrypt"] = None
                self.ctx.fault("bcrypt_import_blocked")
            else:
                sys.modules["bcrypt"] = self.bproxy

    def finish(self):
        vec = []
        for h in sorted(self.touched):
            try:
                vec.append((h, self.active(h)))
            except Exception as e:
                vec.append((h, type(e).__name__))
        self.ctx.key(vec, sorted(self.ctx.faults), sorted(self.outcomes))


def execute(program, ctx):
    w = _World(program["cfg"], ctx)
    for op in program["ops"]:
        ctx.op()
        k = op["op"]
        if k == "hash":
            w.op_hash(op)
        elif k == "set_backend":
            w.op_set_backend(op)
        elif k == "has_backend":
            w.op_has_backend(op)
        elif k == "cross":
            w.op_cross(op)
        else:
            w.op_fault(op)
    w.finish()


def prepare(prop, tier):
    """import the handler modules in the template process (no backend gets loaded by importing)"""
    import passlib.hash

    for name in HASHERS:
        getattr(passlib.hash, name)
