"""world `totp` -- properties C13, C14, C15 (DESIGN.md section 4).

A discrete-event simulation: accounts with a server-side TOTP object, devices with their own
(skewed, stepping) clocks, a network that delays / duplicates / drops / reorders submissions, an
attacker who replays and forges, server restarts from the durable serialised form.

Real code: passlib.totp (TOTP, TotpToken, TotpMatch, serialisation), passlib.crypto.digest.
Stubs: clocks (TOTP.using(now=...)), network, devices' owners, attacker, durable store.
"""

from __future__ import annotations

import datetime
import json
import math
import warnings

from simkit import core
from simkit.refmodels.hotp import ref_hotp, ref_match, ref_normalize_token

NAME = "totp"

RULE = {
    "C13": "seeded discrete-event histories; every token emitted by a simulated device (real TOTP.generate under the "
           "simulated device clock, or with an explicit int/float/aware/naive datetime) is compared with an independent "
           "RFC 4226/6238 reference; a run is non-trivial if >=1 emission was checked; distinct = distinct sequences of "
           "(time form, boundary class of device time, digits, alg) over the run",
    "C14": "seeded discrete-event histories of deliveries / attacks / clock steps / restarts; every server decision is "
           "compared with the reference matcher evaluated at the time the server's clock returned; a run is non-trivial if "
           ">=1 decision was checked; distinct = distinct sequences of (decision kind, relation of matched counter to "
           "last_counter and to the expected counter, boundary class of t)",
    "C15": "every provisioning message and every durable record is a serialisation round trip through the factory class "
           "(with and without class-level defaults) checked field by field and by tokens at 3 probe times; hostile sources "
           "must raise ValueError; non-trivial if >=1 round trip or hostile source was checked; distinct = distinct "
           "sequences of (form, which fields equal library/class defaults, label/issuer character classes, hostile kind)",
}
FAULT_KINDS = {
    "C13": ["device_clock_step", "device_skew", "key_rotation", "preemption"],
    "C14": ["server_clock_step", "device_clock_step", "device_skew", "net_delay", "net_dup", "net_drop", "net_reorder",
            "attack_replay", "attack_neighbour", "attack_corrupt", "attack_wrong_length", "server_restart"],
    "C15": ["server_restart", "corrupt_source", "key_rotation"],
}
COMPONENTS = {
    "real": ["passlib.totp.TOTP (generate, match, normalize_*, to_uri/from_uri, to_json/from_json, to_dict/from_dict, using)",
             "passlib.totp.TotpToken", "passlib.totp.TotpMatch", "passlib.crypto.digest.compile_hmac/lookup_hash",
             "stdlib hmac/hashlib/json/urllib.parse"],
    "stub": ["wall clock (TOTP.using(now=SimClock))", "network (delay/dup/drop/reorder queue)", "devices and their owners",
             "attacker", "durable record store (dict)"],
    "unavailable": ["AppWallet key encryption (the 'cryptography' package is not installed on this image)"],
}
ASSUMPTIONS = {
    "*": ["the reference HOTP (stdlib hmac + struct, written from RFC 4226) is correct",
          "tokens are submitted as ASCII digit strings (possibly decorated with blanks/dashes), ASCII bytes or ints (negative ints and digits of other scripts are submitted as not-a-code and must be refused as malformed)"],
    "C14": ["the reference matcher encodes the statement of C14 literally; t is the integer the server's clock returned"],
    "C15": ["labels/issuers contain no ':' and no leading/trailing blanks (the KeyURI format strips them)"],
}

ALGS = ["sha1", "sha256", "sha512"]
# every other hash the platform's hashlib offers that is long enough for RFC 4226 truncation (names with digits / underscores)
EXTRA_ALGS = ["sha224", "sha384", "sha3_256", "sha3_512", "sha3_224", "blake2b", "blake2s"]
LABEL_ALPHABET = ["a", "B", "7", " ", "@", "/", "%", "&", "=", "+", "?", "#", ";", "é", "ß", "漢", "_", ".", "-", "%41", " x"]
MAX_DT = 253402300800 - 2 * 86400  # datetime.max as a timestamp, minus margin


# ---------------------------------------------------------------------------------------------
# generation
# ---------------------------------------------------------------------------------------------
def _gen_text(rng, maxlen=10):
    n = rng.randint(1, maxlen)
    s = "".join(rng.choice(LABEL_ALPHABET) for _ in range(n))
    s = s.strip()
    s = s.strip(" ")
    return s.strip() or "x"


def _gen_account(rng, prop):
    period = rng.choice([1, 2, 3, 5, 10, 30, 30, 30, 60, 45, 3600, rng.randint(1, 3600)])
    digits = rng.choice([6, 6, 6, 7, 8, 9, 10])
    alg = rng.choice(ALGS + ["sha1"]) if rng.random() < 0.85 else rng.choice(EXTRA_ALGS)
    klen = rng.choice([10, 16, 20, 20, 32, 64, rng.randint(10, 64)])
    if rng.random() < 0.08:
        klen = rng.randint(1, 9)
    key = bytes(rng.getrandbits(8) for _ in range(klen))
    acct = {"key": key.hex(), "alg": alg, "digits": digits, "period": period,
            "label": _gen_text(rng) if rng.random() < 0.8 else None,
            "issuer": _gen_text(rng, 6) if rng.random() < 0.5 else None,
            "factory": {}, "durable_form": rng.choice(["json", "dict", "uri"])}
    if acct["durable_form"] == "uri" and not acct["label"]:
        acct["label"] = "u"
    # class-level defaults set through using()
    if rng.random() < (0.6 if prop == "C15" else 0.3):
        f = {}
        if rng.random() < 0.5:
            f["alg"] = rng.choice(ALGS)
        if rng.random() < 0.5:
            f["digits"] = rng.choice([6, 7, 8])
        if rng.random() < 0.5:
            f["period"] = rng.choice([30, 45, 60, period])
        if rng.random() < 0.4:
            f["issuer"] = rng.choice([_gen_text(rng, 5), acct["issuer"] or "acme"])
        acct["factory"] = f
        # make "explicit value equal to the library default while the class default differs" common
        if rng.random() < 0.5:
            acct["alg"] = "sha1"
        if rng.random() < 0.5:
            acct["digits"] = 6
        if rng.random() < 0.5:
            acct["period"] = 30
    return acct


def _boundary_time(rng, period, window):
    k = rng.randint(0, 2 ** rng.choice([4, 12, 20, 26, 31, 34, 36]))
    base = min(k * period, 2 ** 40 - 10 ** 7)
    off = rng.choice([-1, 0, 0, 1, period - 1, window, -window, window + 1, -window - 1, rng.randint(0, period)])
    return max(0, base + off)


def _gen_threads(rng, prop, tier):
    """several caller threads compute and check codes at once (own objects, or one object shared by all): the module keeps no
    per-call state, so whichever thread runs between any two lines of another, every code is still the RFC's"""
    nthreads = rng.choice([2, 2, 3])
    shared = rng.random() < 0.3
    accts = [_gen_account(rng, prop) for _ in range(1 if shared else nthreads)]
    threads = []
    for i in range(nthreads):
        calls = []
        for _ in range(rng.randint(2, 5)):
            t = rng.choice([rng.randint(0, 2 ** 31), rng.randint(0, 10 ** 5), rng.randint(2 ** 32, 2 ** 40)])
            calls.append([rng.choice(["generate", "generate", "match", "verify"]), t, rng.choice([0, 0, 30, 90])])
        threads.append(calls)
    strategy = rng.choices(["sticky", "pct", "uniform", "park"], [35, 25, 15, 25])[0]
    sparams = {}
    if strategy == "sticky":
        sparams["p"] = rng.choice([0.01, 0.03, 0.1, 0.3])
    elif strategy == "pct":
        sparams = {"depth": rng.choice([1, 2, 3]), "est_len": rng.choice([50, 150, 400])}
    elif strategy == "park":
        sparams = {"victim": rng.randrange(nthreads), "p": rng.choice([0.0, 0.0, 0.01]), "at": rng.choice([rng.randint(1, 40), rng.randint(1, 400)])}
    cfg = {"mode": "threads", "accounts": accts, "shared": shared, "threads": threads, "strategy": strategy, "sparams": sparams,
           "opcode": tier == "thorough" and rng.random() < 0.3, "seed": rng.getrandbits(32)}
    return {"cfg": cfg, "ops": []}


def generate(rng, prop, tier):
    if prop == "C13" and rng.random() < 0.07:
        return _gen_threads(rng, prop, tier)
    n_acct = rng.choice([1, 1, 2, 3])
    accounts = [_gen_account(rng, prop) for _ in range(n_acct)]
    window_default = rng.choice([0, 1, 10, 30, 30, 60, 300])
    float_clock = rng.random() < 0.4
    t0 = _boundary_time(rng, accounts[0]["period"], window_default)
    if rng.random() < 0.1:
        t0 = rng.randint(0, 5)
    if prop == "C13" and rng.random() < 0.15:
        t0 = rng.randint(2 ** 38, 2 ** 40 - 10 ** 6)
    if prop in ("C13", "C14") and rng.random() < 0.04:
        # a clock set absurdly wrong (beyond what C's struct tm can express): still integers, still RFC arithmetic
        t0 = rng.randint(2 ** 56, 2 ** 60)
        float_clock = False
    frac = rng.choice([0.0, 0.25, 0.5, 0.999]) if float_clock else 0
    faults_on = rng.random() < 0.7
    devices = []
    for a, acct in enumerate(accounts):
        for _ in range(rng.choice([1, 1, 2])):
            skew = 0
            if rng.random() < 0.6:
                skew = rng.choice([-1, 1, -acct["period"], acct["period"], rng.randint(-90, 90), rng.randint(-5, 5)])
            devices.append({"acct": a, "skew": skew,
                            "form": rng.choice(["uri", "json", "dict", "pretty_b32", "pretty_hex", "raw", "uri_args", "lib_pretty", "object"]),
                        "direct": rng.random() < 0.4, "sep": rng.choice(["-", " ", False]), "kfmt": rng.choice(["base32", "hex", "base16"]),
                        "alt_label": rng.choice(["bob@example.org", "Ann Lee", "u/1&x=2", "ü@ö.example"]), "alt_issuer": rng.choice([None, "Example Corp", "a&b=c"]),
                            "deco": rng.choice(["none", "lower", "spaces", "dashes", "pad", "mixed", "uspaces"]),
                            "factory": rng.choice(["stock", "same"]), "wallet": rng.choice(WALLET_FACTORIES)})
    for d in devices:
        if d["form"] == "uri" and not accounts[d["acct"]]["label"]:
            d["form"] = "json"
    cfg = {"accounts": accounts, "devices": devices, "t0": t0, "frac": frac, "float_clock": float_clock,
           "server_off": rng.choice([0, 0, 0, 1, -1, rng.randint(-30, 30)]) if faults_on else 0,
           "faults_on": faults_on}
    ops = []
    nops = rng.randint(8, 60 if tier == "quick" else 120)
    weights = {"emit": 10, "advance": 8, "attack": 4 if faults_on else 0, "match_params": 2,
               "clock_step": 2 if faults_on else 0, "restart": 1.5 if faults_on else 0.3,
               "provision": 2, "hostile": 1, "rekey": 0.7}
    if prop == "C13":
        weights.update(emit=16, attack=1 if faults_on else 0, hostile=0, provision=3)
    if prop == "C15":
        weights.update(provision=10, hostile=6, restart=4, emit=4, attack=0.5 if faults_on else 0, rekey=2)
    kinds = sorted(weights)
    wl = [weights[k] for k in kinds]
    for a in range(n_acct):
        ops.append({"op": "match_params", "acct": a, "window": window_default,
                    "skew": rng.choice([0, 0, 0, -1, 1, rng.randint(-40, 40)])})
    for _ in range(nops):
        k = rng.choices(kinds, wl)[0]
        if k == "emit":
            d = rng.randrange(len(devices))
            per = accounts[devices[d]["acct"]]["period"]
            delay = rng.choice([0, 0, 0, 1, 2, per, rng.randint(0, 3 * per)])
            op = {"op": "emit", "dev": d, "tform": rng.choice(["now", "now", "now", "int", "float", "dt_utc", "dt_tz", "dt_naive"]),
                  "delay": delay if (faults_on or delay <= 2) else 0, "dup": None, "drop": False,
                  "submit_as": rng.choice(["str", "str", "str", "int", "bytes", "spaced", "dashed", "uspaced", "uspaced_bytes"]),
                  "tmode": rng.choice(["now", "now", "int", "float", "dt"])}
            if faults_on:
                if rng.random() < 0.12:
                    op["dup"] = rng.choice([0, 1, per, 2 * per + 1])
                if rng.random() < 0.06:
                    op["drop"] = True
            ops.append(op)
        elif k == "advance":
            a = rng.randrange(n_acct)
            per = accounts[a]["period"]
            dt = rng.choice([0, 1, 1, 2, per - 1, per, per + 1, 2 * per, window_default, window_default + per,
                             rng.randint(0, 5 * per), rng.choice([10 ** 3, 10 ** 5]) if rng.random() < 0.1 else 1])
            ops.append({"op": "advance", "dt": max(0, dt)})
        elif k == "attack":
            ops.append({"op": "attack", "acct": rng.randrange(n_acct),
                        "kind": rng.choice(["replay", "replay", "neighbour", "neighbour", "corrupt", "wrong_length",
                                            "letters", "empty", "last_counter_code", "future", "bytes_junk", "not_a_code"]),
                        "arg": rng.randint(-4, 4), "pos": rng.randint(0, 9), "digit": rng.randint(0, 9),
                        "tmode": rng.choice(["now", "now", "int", "float", "dt"])})
        elif k == "match_params":
            a = rng.randrange(n_acct)
            per = accounts[a]["period"]
            ops.append({"op": "match_params", "acct": a,
                        "window": rng.choice([0, 1, per - 1, per, 30, 60, 2 * per, 10 * per, 300 * per if per <= 3 else 3 * per]),
                        "skew": rng.choice([0, 0, -1, 1, -per, per, rng.randint(-60, 60)])})
        elif k == "clock_step":
            who = rng.choice(["server"] + [f"dev{d}" for d in range(len(devices))])
            ops.append({"op": "clock_step", "who": who,
                        "dt": rng.choice([-1, 1, -30, 30, -61, 61, rng.randint(-400, 400)])})
        elif k == "restart":
            ops.append({"op": "restart", "acct": rng.randrange(n_acct)})
        elif k == "provision":
            ops.append({"op": "provision", "dev": rng.randrange(len(devices)),
                        "form": rng.choice(["uri", "json", "dict", "pretty_b32", "pretty_hex", "raw", "uri_args", "lib_pretty", "object"]),
                        "direct": rng.random() < 0.4, "sep": rng.choice(["-", " ", False]), "kfmt": rng.choice(["base32", "hex", "base16"]),
                        "alt_label": rng.choice(["bob@example.org", "Ann Lee", "u/1&x=2", "ü@ö.example"]), "alt_issuer": rng.choice([None, "Example Corp", "a&b=c"]),
                        "deco": rng.choice(["none", "lower", "spaces", "dashes", "pad", "mixed", "uspaces"]),
                        "factory": rng.choice(["stock", "same"]), "wallet": rng.choice(WALLET_FACTORIES)})
        elif k == "hostile":
            ops.append({"op": "hostile", "acct": rng.randrange(n_acct),
                        "kind": rng.choice(HOSTILE_KINDS), "arg": rng.randint(0, 50)})
        elif k == "rekey":
            # the secret of an account is rotated on the LIVE server object (TOTP.key is assignable), after the object has
            # generated / matched / been serialised -- everything it answers afterwards follows the new secret
            ops.append({"op": "rekey", "acct": rng.randrange(n_acct), "key": bytes(rng.getrandbits(8) for _ in range(rng.choice([10, 16, 20, 32]))).hex(),
                        "form": rng.choice(["uri", "json", "dict"]), "factory": rng.choice(["stock", "same"])})
    # colliding codes (C14, "earliest first"): two counters inside the window that produce the same code
    if prop == "C14" and rng.random() < 0.25:
        for _ in range(rng.randint(1, 2)):
            ops.insert(rng.randint(n_acct, len(ops)), {"op": "collide", "acct": rng.randrange(n_acct), "span": rng.choice([1500, 2500, 4000]),
                                                      "pick": rng.randint(0, 50), "replay": rng.random() < 0.6, "tmode": rng.choice(["now", "now", "int"])})
    # exhaustive boundary sweep (C14): small period / window / skew / last-counter offsets x every time in a range
    if prop == "C14" and rng.random() < (0.25 if tier == "thorough" else 0.03):
        ops.append({"op": "sweep", "acct": rng.randrange(n_acct), "period": rng.choice([1, 2, 3, 5]), "t0": rng.choice([0, 1, 7, 1000, 2 ** 31 - 3]),
                    "span": rng.choice([6, 10, 16]), "maxwin": rng.choice([2, 4, 7]), "digits": rng.choice([6, 6, 8])})
    # a very wide acceptance window (C14): a helpdesk "accept anything from the last / next day" setting, shifted so that the
    # device's counter lies more than 2^16 steps after the first eligible one -- every counter of the window is eligible
    if prop == "C14" and rng.random() < 0.02 and t0 > 10 ** 8:
        d = rng.randrange(len(devices))
        a = devices[d]["acct"]
        per = accounts[a]["period"]
        steps = rng.choice([40000, 70000])
        ops.append({"op": "resync", "dev": d})
        ops.append({"op": "match_params", "acct": a, "window": steps * per, "skew": -(steps - 4000) * per})
        ops.append({"op": "emit", "dev": d, "tform": "now", "delay": 0, "dup": None, "drop": False, "submit_as": "str", "tmode": "now", "live": True})
        ops.append({"op": "advance", "dt": 0})
        ops.append({"op": "match_params", "acct": a, "window": window_default, "skew": 0})
    # fault-free suffix for bounded liveness (C14): fresh codes from an in-sync device
    if prop == "C14" and rng.random() < 0.6:
        for _ in range(rng.randint(1, 4)):
            d = rng.randrange(len(devices))
            per = accounts[devices[d]["acct"]]["period"]
            ops.append({"op": "resync", "dev": d})
            ops.append({"op": "advance", "dt": per})
            ops.append({"op": "emit", "dev": d, "tform": "now", "delay": 0, "dup": None, "drop": False,
                        "submit_as": "str", "tmode": "now", "live": True})
            ops.append({"op": "advance", "dt": 0})
    return {"cfg": cfg, "ops": ops}


# receiving factories of the "object" provisioning form: no wallet (same wallet as the source: object returned as is), or
# application secrets plus class-level defaults that are the source's own / the library's / different from both
WALLET_FACTORIES = ["none", "same", "stock", "other", "other", "other2"]
WALLET_DEFAULTS = {"none": {}, "stock": {}, "other": {"period": 60, "digits": 8, "alg": "sha256"},
                   "other2": {"period": 15, "digits": 7, "alg": "sha512", "issuer": "Other Corp"}}

HOSTILE_KINDS = ["uri_conflicting_issuer", "uri_duplicate_secret", "uri_duplicate_digits", "uri_duplicate_param", "uri_missing_secret",
                 "uri_unknown_type", "uri_bad_digits", "uri_bad_period", "uri_wrong_scheme", "uri_many_colons",
                 "uri_missing_label", "json_missing_v", "json_bad_v", "json_missing_key", "json_unknown_type",
                 "json_truncated", "json_missing_type", "dict_missing_v", "dict_bad_v", "dict_missing_key",
                 "dict_unknown_type", "json_not_object"]


def simplify_op(op):
    out = []
    if not isinstance(op, dict):
        return out  # (a recorded thread switch)
    if op.get("op") == "emit":
        for k, v in (("dup", None), ("drop", False), ("delay", 0), ("tform", "now"), ("submit_as", "str"), ("tmode", "now")):
            if op.get(k) != v:
                o = dict(op)
                o[k] = v
                out.append(o)
    elif op.get("op") == "advance" and op["dt"] > 1:
        out.append({"op": "advance", "dt": 0})
        out.append({"op": "advance", "dt": 1})
    elif op.get("op") == "attack" and op.get("tmode") != "now":
        o = dict(op)
        o["tmode"] = "now"
        out.append(o)
    return out


def simplify_cfg(cfg):
    out = []
    if cfg.get("mode") == "threads":
        th = cfg["threads"]
        for i, calls in enumerate(th):
            if len(calls) > 1:
                for j in range(len(calls)):
                    c = dict(cfg)
                    c["threads"] = [list(x) for x in th]
                    c["threads"][i] = calls[:j] + calls[j + 1:]
                    out.append(c)
        return out
    if cfg.get("frac"):
        c = dict(cfg)
        c["frac"] = 0
        c["float_clock"] = False
        out.append(c)
    if cfg.get("server_off"):
        c = dict(cfg)
        c["server_off"] = 0
        out.append(c)
    for i, a in enumerate(cfg["accounts"]):
        for k, v in (("issuer", None), ("factory", {})):
            if a.get(k) != v:
                c = json.loads(json.dumps(cfg))
                c["accounts"][i][k] = v
                out.append(c)
        if a.get("label") not in (None, "u"):
            c = json.loads(json.dumps(cfg))
            c["accounts"][i]["label"] = "u"
            out.append(c)
        for fk in list(a.get("factory") or {}):
            c = json.loads(json.dumps(cfg))
            del c["accounts"][i]["factory"][fk]
            out.append(c)
    for i, d in enumerate(cfg["devices"]):
        if d.get("skew"):
            c = json.loads(json.dumps(cfg))
            c["devices"][i]["skew"] = 0
            out.append(c)
    return out


# ---------------------------------------------------------------------------------------------
# execution
# ---------------------------------------------------------------------------------------------
class _Clock:
    """a readable clock: true time + offset; records the last value it returned"""

    def __init__(self, world, off=0, as_float=False):
        self.world = world
        self.off = off
        self.as_float = as_float
        self.reads = 0
        self.last = None

    def __call__(self):
        v = self.world.T + self.off
        if v < 0:
            v = 0
        if self.as_float:
            v = float(v) + self.world.frac
        self.reads += 1
        self.last = v
        return v


def _decorate_key(s, deco):
    if deco == "lower":
        return s.lower()
    if deco == "spaces":
        return " ".join(s[i:i + 4] for i in range(0, len(s), 4))
    if deco == "dashes":
        return "-".join(s[i:i + 3] for i in range(0, len(s), 3))
    if deco == "pad":
        return s + "=" * ((8 - len(s) % 8) % 8)
    if deco == "mixed":
        return " " + "-".join(s[i:i + 5] for i in range(0, len(s), 5)).lower() + " "
    if deco == "uspaces":
        # blanks that are not ASCII (copied from a web page, typed on a phone): "whitespace is ignored" means these too
        blanks = ["\u00a0", "\u2009", "\u202f", "\u3000", "\u2028", "\x85", "\x1c"]
        return "".join(s[i:i + 4] + blanks[(i // 4) % len(blanks)] for i in range(0, len(s), 4))
    return s


def _time_arg(mode, t, frac, which):
    """explicit time argument in the requested form; returns (arg, integer time it denotes)"""
    t = int(t)
    if mode == "int":
        return t, t
    if mode == "float":
        arg = float(t) + (frac or 0.5)
        return arg, math.floor(arg)  # the time that was actually passed (floats round at large magnitudes)
    if mode in ("dt", "dt_utc", "dt_tz", "dt_naive"):
        if t >= MAX_DT:
            return t, t
        if mode == "dt_naive":
            d = datetime.datetime(1970, 1, 1) + datetime.timedelta(seconds=t, microseconds=250000)
            return d, t
        tz = datetime.timezone.utc
        if mode == "dt_tz" or (mode == "dt" and which % 2):
            tz = datetime.timezone(datetime.timedelta(hours=5, minutes=30))
        d = datetime.datetime.fromtimestamp(0, tz) + datetime.timedelta(seconds=t, microseconds=250000)
        return d, t
    return None, None


class _World:
    def __init__(self, cfg, ctx):
        from passlib.totp import TOTP

        self.TOTP = TOTP
        self.ctx = ctx
        self.cfg = cfg
        self.T = cfg["t0"]
        self.frac = cfg.get("frac", 0) or 0
        self.server_clock = _Clock(self, cfg.get("server_off", 0), cfg.get("float_clock", False))
        self.seq = 0
        self.queue = []  # (due, seq, msg)
        self.accounts = []
        self.devices = []
        self.faults_seen = False
        for a in cfg["accounts"]:
            self.accounts.append(self._make_account(a))
        for i, d in enumerate(cfg["devices"]):
            self.devices.append(self._make_device(i, d))

    # -- construction ----------------------------------------------------------------------
    def _factory(self, acct_cfg, now):
        f = dict(acct_cfg.get("factory") or {})
        return self.TOTP.using(now=now, **f)

    def _make_account(self, a):
        fac = self._factory(a, self.server_clock)
        key = bytes.fromhex(a["key"])
        with warnings.catch_warnings(record=True) as w:
            warnings.simplefilter("always")
            obj = fac(key=key, format="raw", alg=a["alg"], digits=a["digits"], period=a["period"],
                      label=a["label"], issuer=a["issuer"])
        if len(key) < 10:
            self.ctx.probe("short_key_warning", len(w))
        acct = {"cfg": a, "factory": fac, "totp": obj, "key": key, "last_counter": None, "window": 30, "skew": 0,
                "accepted": [], "delivered": [], "eff_issuer": a["issuer"] or (a.get("factory") or {}).get("issuer")}
        acct["durable"] = self._serialise(obj, a["durable_form"])
        return acct

    def _serialise(self, obj, form):
        if form == "json":
            return obj.to_json()
        if form == "dict":
            return obj.to_dict()
        return obj.to_uri()

    def _make_device(self, i, d):
        clock = _Clock(self, d["skew"], self.cfg.get("float_clock", False))
        if d["skew"]:
            self.ctx.fault("device_skew")
        dev = {"cfg": d, "clock": clock, "totp": None, "idx": i}
        self._provision(dev, d["form"], d["deco"], d["factory"], check=True, op=d)
        return dev

    # -- C15 / C13: provisioning = serialisation round trip -------------------------------------
    def _expect_fields(self, acct, form, factory):
        a = acct["cfg"]
        exp = {"key": acct["key"], "alg": a["alg"], "digits": a["digits"], "period": a["period"]}
        if form == "object":
            exp["label"] = a["label"]
            exp["issuer"] = acct["totp"].issuer
        if form in ("uri", "json", "dict"):
            exp["label"] = a["label"]
            exp["issuer"] = acct["totp"].issuer
            cls_issuer = (a.get("factory") or {}).get("issuer")
            if form != "uri" and factory != "same" and cls_issuer and exp["issuer"] == cls_issuer:
                # to_dict()/to_json() deliberately leave out an issuer equal to the class default; it is
                # only expected to come back through the same factory class
                del exp["issuer"]
        return exp

    def _provision(self, dev, form, deco, factory, check, op=None):
        ctx = self.ctx
        op = op or {}
        acct = self.accounts[dev["cfg"]["acct"]]
        a = acct["cfg"]
        src = acct["totp"]
        override = None
        if form == "uri_args":
            # to_uri(label=..., issuer=...): explicit arguments take the place of the object's own label / issuer
            form = "uri"
            override = {"label": op.get("alt_label", "bob@example.org"), "issuer": op.get("alt_issuer")}
        if form == "uri" and not a["label"] and not override:
            form = "json"
        if factory == "same":
            fac = self._factory(a, dev["clock"])
        else:
            fac = self.TOTP.using(now=dev["clock"])
        if form == "object":
            # a LIVE object handed to another factory's from_source(): same wallet -> the object itself; another wallet (here:
            # application secrets configured on the receiving side) -> re-serialised in memory and loaded by the receiving class,
            # whose class-level defaults (using()) need not be the source's
            wk = op.get("wallet", "other")
            wf = dict(WALLET_DEFAULTS[wk]) if wk in WALLET_DEFAULTS else dict(a.get("factory") or {})
            if wk != "none":
                wf["secrets"] = {"1": "application secret number one"}
            fac = self.TOTP.using(now=dev["clock"], **wf)
            factory = "wallet:" + wk
        with warnings.catch_warnings(record=True):
            warnings.simplefilter("always")
            if form == "object":
                try:
                    obj = fac.from_source(src)
                except Exception as e:
                    ctx.fail("C15", "roundtrip-raises", f"object: {factory}.from_source(<TOTP>) raised {type(e).__name__}: {e}",
                             form=form, exc=type(e).__name__)
                if wk != "none":
                    ctx.fault("cross_wallet_object")
                    ctx.check(obj is not src and obj.wallet is fac.wallet, "C15", "object-not-rewrapped",
                              lambda: f"{factory}.from_source(<TOTP>) returned an object of wallet {obj.wallet!r}", form=form)
                else:
                    # same (absent) wallet: the object itself comes back; the device then keeps a copy bound to its own clock
                    ctx.check(obj is src, "C15", "object-not-rewrapped", "same wallet, yet from_source(<TOTP>) built a new object", form=form)
                    obj = self._factory(a, dev["clock"]).from_source(src.to_json())
            elif form in ("uri", "json", "dict"):
                if override:
                    try:
                        msg = src.to_uri(**{k: v for k, v in override.items() if v is not None})
                    except Exception as e:
                        ctx.fail("C15", "roundtrip-raises", f"to_uri({override}) raised {type(e).__name__}: {e}", form="uri_args", exc=type(e).__name__)
                else:
                    msg = self._serialise(src, form)
                # the format's own loader, or the generic one
                loader = {"uri": fac.from_uri, "json": fac.from_json, "dict": fac.from_dict}[form] if op.get("direct") else fac.from_source
                try:
                    obj = loader(msg)
                    if ctx.n_ops % 4 == 2:
                        # the same serialised text is loaded a second time after the first loaded object has been changed by its
                        # owner (re-keyed, relabelled): every load gives what the text says
                        obj.key = b"somebody else's key!"
                        obj.label, obj.issuer, obj.digits, obj.period = "changed", "Changed Corp", 9, 77
                        obj = loader(msg)
                        ctx.probe("same_source_loaded_twice")
                except Exception as e:
                    ctx.fail("C15", "roundtrip-raises", f"{form}: from_source({msg!r}) raised {type(e).__name__}: {e}",
                             form=form, exc=type(e).__name__)
                if form == "uri":
                    ctx.check(isinstance(msg, str) and msg.startswith("otpauth://totp/"), "C15", "uri-shape", msg, form=form)
            else:
                if form == "pretty_b32":
                    k = _decorate_key(src.base32_key, deco)
                    fmt = "base32"
                    if ctx.n_ops % 3 == 1:
                        k = k.encode("utf-8")
                elif form == "lib_pretty":
                    # the library's own pretty-printer (format x separator) must give something its constructor reads back
                    kf = op.get("kfmt", "base32")
                    k = src.pretty_key(format=kf, sep=op.get("sep", "-"))
                    fmt = kf  # (the constructor takes the same format names, aliases included)
                elif form == "pretty_hex":
                    k = src.hex_key
                    if deco in ("lower",):
                        k = k.lower()
                    elif deco in ("spaces", "dashes", "mixed"):
                        k = _decorate_key(k.upper() if deco == "mixed" else k, "spaces" if deco != "dashes" else "dashes")
                    fmt = "hex"
                else:
                    k = acct["key"]
                    fmt = "raw"
                try:
                    obj = fac(key=k, format=fmt, alg=a["alg"], digits=a["digits"], period=a["period"])
                except Exception as e:
                    ctx.fail("C13", "key-spelling-rejected", f"{fmt} key {k!r}: {type(e).__name__}: {e}", form=form, deco=deco)
                ctx.check(obj.key == acct["key"], "C13", "key-spelling-differs",
                          lambda: f"{fmt} key {k!r} decoded to {obj.key.hex()} expected {acct['key'].hex()}", form=form)
        ctx.log("provision", dev["idx"], form, deco, factory)
        dev["totp"] = obj
        if not check:
            return
        exp = self._expect_fields(acct, form, factory)
        if override:
            exp["label"] = override["label"]
            if override["issuer"] is not None:
                exp["issuer"] = override["issuer"]
        cls_defaults = a.get("factory") or {}
        for name, want in exp.items():
            got = getattr(obj, name)
            if form == "object" and name == "issuer" and want is None:
                continue  # (a source without issuer takes the receiving class's default issuer, if it has one)
            if got != want:
                attrs = {"field": name, "form": form, "factory_defaults": bool(cls_defaults) and factory == "same"}
                ctx.fail("C15" if form in ("uri", "json", "dict", "object") else "C13", "roundtrip-field-differs",
                         f"{form} via factory={factory} defaults={cls_defaults}: {name} {want!r} -> {got!r}", **attrs)
            ctx.n_checks += 1
        # same codes at three probe times
        per = a["period"]
        for t in (0, self.T, self.T + 7 * per + 3):
            want = ref_hotp(acct["key"], int(t) // per, a["alg"], a["digits"])
            got = obj.generate(int(t)).token
            ctx.check(got == want, "C15" if form in ("uri", "json", "dict", "object") else "C13", "roundtrip-token-differs",
                      lambda: f"{form}: token at {t} {got} != {want}", form=form)
        if form in ("uri", "json", "dict", "object"):
            ctx.nontrivial = ctx.nontrivial or ctx.prop == "C15"
            ctx.key("rt", form, factory, a["alg"] == "sha1", a["digits"] == 6, a["period"] == 30,
                    sorted(cls_defaults), _cls(a["label"]), _cls(a["issuer"]))

    # -- C13: emission ---------------------------------------------------------------------------
    def emit(self, op):
        ctx = self.ctx
        if op["dev"] >= len(self.devices):
            return
        dev = self.devices[op["dev"]]
        acct = self.accounts[dev["cfg"]["acct"]]
        a = acct["cfg"]
        totp = dev["totp"]
        # C13 speaks about the object's own configuration (whether provisioning preserved it is C15's business)
        a = {"alg": totp.alg, "digits": totp.digits, "period": totp.period}
        dkey = totp.key
        per = a["period"]
        tdev = dev["clock"]()  # what the device's clock says now
        tint = int(tdev)
        arg, tpassed = _time_arg(op["tform"], tint, self.frac, ctx.n_ops)
        if tpassed is not None:
            tint = tpassed
        try:
            tok = totp.generate(arg) if op["tform"] != "now" else totp.generate()
        except Exception as e:
            ctx.fail("C13", "generate-raises", f"generate({arg!r}) at device time {tdev}: {type(e).__name__}: {e}",
                     exc=type(e).__name__, tform=op["tform"])
        c = tint // per
        want = ref_hotp(dkey, c, a["alg"], a["digits"])
        bclass = "start" if tint % per == 0 else "end" if tint % per == per - 1 else "mid"
        ctx.log("emit", op["dev"], op["tform"], tint, tok.token)
        ctx.check(tok.token == want, "C13", "token-differs-from-rfc",
                  lambda: f"alg={a['alg']} digits={a['digits']} period={per} t={tint} ({op['tform']}) counter={c}: "
                          f"got {tok.token!r} want {want!r}", tform=op["tform"])
        ctx.check(isinstance(tok.token, str) and len(tok.token) == a["digits"] and tok.token.isdigit() and tok.token.isascii(),
                  "C13", "token-shape", repr(tok.token))
        ctx.check(tok.counter == c, "C13", "token-counter", f"{tok.counter} != {c}")
        ctx.check(tok.start_time == c * per and tok.expire_time == (c + 1) * per, "C13", "validity-interval",
                  f"start={tok.start_time} expire={tok.expire_time} want {c * per}..{(c + 1) * per}")
        now = dev["clock"]()
        rem = tok.remaining
        ctx.check(rem == max(0, (c + 1) * per - now), "C13", "remaining", f"{rem} vs {(c + 1) * per - now}")
        ctx.check(tok.valid == bool(rem), "C13", "valid-flag", f"{tok.valid} {rem}")
        seq = tuple(tok)
        ctx.check(seq == (tok.token, (c + 1) * per), "C13", "token-as-sequence", repr(seq))
        # the validity interval is half-open: at the very instant expire_time (device clock stepped there) the code is over
        clock = dev["clock"]
        saved = clock.off
        try:
            for delta in (0, -1, 1):
                clock.off = saved + ((c + 1) * per + delta - (self.T + saved)) if self.T + saved >= 0 else saved
                now2 = clock()
                want_rem = max(0, (c + 1) * per - now2)
                ctx.check(tok.remaining == want_rem and tok.valid == (want_rem > 0), "C13", "validity-interval",
                          lambda: f"device clock at {now2} (expire_time {(c + 1) * per}{delta:+d}): remaining={tok.remaining} valid={tok.valid}, "
                                  f"expected remaining={want_rem} valid={want_rem > 0}", boundary=True)
        finally:
            clock.off = saved
        if want.startswith("0"):
            ctx.probe("leading_zero_token")
        if a["digits"] == 10:
            ctx.probe("ten_digit_token")
        if ctx.prop == "C13":
            ctx.nontrivial = True
            ctx.key("emit", op["tform"], bclass, a["digits"], a["alg"], tint > 2 ** 32)
        # hand the code to the network
        token = tok.token
        sub = op.get("submit_as", "str")
        if sub == "int":
            token_sub = int(token)
        elif sub == "bytes":
            token_sub = token.encode("ascii")
        elif sub == "spaced":
            token_sub = " " + token[:3] + " " + token[3:] + "\t"
        elif sub == "dashed":
            token_sub = token[:2] + "-" + token[2:]
        elif sub in ("uspaced", "uspaced_bytes"):
            # pasted from a web page / typed on a phone: "whitespace" is any Unicode blank, not only the ASCII ones
            blanks = ["\u00a0", "\u2009", "\u202f", "\u3000", "\u2028", "\x85", "\x1c", "\u2003"]
            b1, b2 = blanks[c % len(blanks)], blanks[(c // 8 + op["dev"]) % len(blanks)]
            token_sub = token[:3] + b1 + token[3:] + b2
            if sub == "uspaced_bytes":
                token_sub = token_sub.encode("utf-8")
        else:
            token_sub = token
        msg = {"acct": dev["cfg"]["acct"], "token": token_sub, "counter": c, "tmode": op.get("tmode", "now"),
               "dev": op["dev"], "live": bool(op.get("live")), "emitted_T": self.T, "dev_skew": dev["clock"].off}
        if op.get("drop"):
            ctx.fault("net_drop")
            self.faults_seen = True
            return
        self._send(msg, op.get("delay", 0))
        if op.get("delay", 0):
            ctx.fault("net_delay")
        if op.get("dup") is not None:
            ctx.fault("net_dup")
            self.faults_seen = True
            self._send(dict(msg, live=False), op.get("delay", 0) + op["dup"])

    def _send(self, msg, delay):
        self.seq += 1
        due = self.T + delay
        if self.queue and due < max(q[0] for q in self.queue):
            self.ctx.fault("net_reorder")
        self.queue.append((due, self.seq, msg))

    # -- time ------------------------------------------------------------------------------------
    def advance(self, dt):
        target = self.T + dt
        while True:
            due = [q for q in self.queue if q[0] <= target]
            if not due:
                break
            q = min(due, key=lambda x: (x[0], x[1]))
            self.queue.remove(q)
            if q[0] > self.T:
                self.ctx.sim_time += q[0] - self.T
                self.T = q[0]
            self.submit(q[2]["acct"], q[2]["token"], q[2]["tmode"], q[2])
        if target > self.T:
            self.ctx.sim_time += target - self.T
            self.T = target

    # -- C14: the server decides -----------------------------------------------------------------
    def submit(self, ai, token, tmode, msg=None):
        ctx = self.ctx
        acct = self.accounts[ai]
        totp = acct["totp"]
        # C14 speaks about matching under the server object's own configuration
        a = {"alg": totp.alg, "digits": totp.digits, "period": totp.period}
        skey = totp.key
        per = a["period"]
        window, skew, lc = acct["window"], acct["skew"], acct["last_counter"]
        reads0 = self.server_clock.reads
        tserver = self.server_clock()  # the instant of the decision (not counted as the call's read)
        kwargs = {"window": window, "skew": skew}
        if lc is not None or ctx.n_ops % 2:
            kwargs["last_counter"] = lc
        if tmode == "now":
            t_read = None
        else:
            arg, t_read = _time_arg(tmode, int(tserver), self.frac, ctx.n_ops)
            kwargs["time"] = arg
        self.server_clock.last = None
        from passlib.exc import InvalidTokenError, MalformedTokenError, UsedTokenError

        m = None
        # entry point: the object's match(), or the stateless one-shot TOTP.verify(token, source, ...) of the account's
        # factory on a serialised / live source -- same decision rule
        entry = "match"
        if (ctx.n_ops + len(acct["delivered"])) % 4 == 1:
            entry = ("verify_json", "verify_dict", "verify_obj")[(ctx.n_ops // 4) % 3]
            ctx.probe("decided_through_" + entry)
        try:
            if entry == "match":
                m = totp.match(token, **kwargs)
            else:
                with warnings.catch_warnings():
                    warnings.simplefilter("ignore")
                    source = totp if entry == "verify_obj" else self._serialise(totp, entry[7:])
                    m = acct["factory"].verify(token, source, **kwargs)
            got = ("accept", m.counter)
        except MalformedTokenError:
            got = ("malformed",)
        except UnicodeDecodeError:
            got = ("malformed",)  # (bytes that are not text: which error class refuses them is not fixed by the statement)
        except UsedTokenError as e:
            got = ("used", e.expire_time)
        except InvalidTokenError:
            got = ("invalid",)
        except Exception as e:
            ctx.fail("C14", "match-internal-error", f"{entry}({token!r}, {kwargs}) raised {type(e).__name__}: {e}",
                     exc=type(e).__name__)
        if tmode == "now":
            # the value the server's clock actually returned for this call, recorded at the seam
            t_read = int(self.server_clock.last) if self.server_clock.last is not None else int(tserver)
        want = ref_match(skey, a["alg"], a["digits"], per, token, t_read, window, skew, lc)
        rel = None
        if want[0] == "used":
            want = ("used", (want[1] + 1) * per)
        ctx.log("decide", ai, repr(token), t_read, window, skew, lc, got)
        ctx.check(got == want, "C14", "decision-differs-from-reference",
                  lambda: f"token={token!r} t={t_read} period={per} window={window} skew={skew} last_counter={lc} "
                          f"digits={a['digits']}: passlib {got} reference {want}",
                  got=got[0], want=want[0])
        if m is not None:
            c = m.counter
            exp_c = t_read // per
            ctx.check(m.time == t_read and m.expected_counter == exp_c and m.skipped == c - exp_c
                      and m.expire_time == (c + 1) * per and m.cache_time == (c + 1) * per + window
                      and m.cache_seconds == per + window and tuple(m) == (c, t_read) and bool(m),
                      "C14", "match-report-fields",
                      lambda: f"counter={c} time={m.time} expected={m.expected_counter} skipped={m.skipped} "
                              f"expire={m.expire_time} cache_time={m.cache_time} (t={t_read} period={per} window={window})")
            # history invariants
            ctx.check(lc is None or c > lc, "C14", "accepted-counter-not-increasing", f"{c} after last_counter {lc}")
            ctx.check(all(c > p for p in acct["accepted"]), "C14", "code-accepted-twice",
                      lambda: f"counter {c} accepted after {acct['accepted']}")
            norm = ref_normalize_token(token, a["digits"])
            earlier = [k for k in range(max(0, (t_read + skew - window) // per, lc or 0), c)
                       if ref_hotp(skey, k, a["alg"], a["digits"]) == norm] if c - max(0, (t_read + skew - window) // per) < 5000 else []
            if earlier:
                ctx.probe("collision_in_window")
            acct["accepted"].append(c)
            acct["last_counter"] = c
            rel = "fresh" if c == exp_c else "past" if c < exp_c else "future"
        # bounded liveness in a fault-free run: an in-sync device's fresh code is accepted at first delivery
        if msg is not None and msg.get("live") and not self.cfg.get("faults_on") and not self.faults_seen:
            cdev = msg["counter"]
            s = msg["dev_skew"]
            delay = self.T - msg["emitted_T"]
            off = self.cfg.get("server_off", 0)
            if (abs(s - delay - off - skew) <= window and (lc is None or cdev > lc) and tmode == "now"
                    and msg["emitted_T"] + s >= 0 and off == 0):
                ctx.probe("liveness_checked")
                ctx.check(got[0] == "accept" and got[1] <= cdev, "C14", "fresh-code-not-accepted",
                          lambda: f"fault-free, device skew {s}, delay {delay}, window {window}, skew {skew}: code of counter "
                                  f"{cdev} (last_counter {lc}) got {got}")
        acct["delivered"].append((token, msg["counter"] if msg else None))
        ctx.extra.setdefault("decisions", {})
        ctx.extra["decisions"][got[0]] = ctx.extra["decisions"].get(got[0], 0) + 1
        if ctx.prop == "C14":
            ctx.nontrivial = True
            bt = t_read % per
            ctx.key("dec", got[0], rel, "b0" if bt == 0 else "b1" if bt == per - 1 else "m",
                    None if lc is None else ("eq" if got[0] == "used" else "gt"), tmode != "now")

    def attack(self, op):
        ctx = self.ctx
        ai = op["acct"]
        if ai >= len(self.accounts):
            return
        acct = self.accounts[ai]
        a = {"alg": acct["totp"].alg, "digits": acct["totp"].digits, "period": acct["totp"].period}
        per = a["period"]
        kind = op["kind"]
        tnow = int(max(0, self.T + self.cfg.get("server_off", 0)))
        cur = tnow // per
        self.faults_seen = True
        if kind == "replay":
            if not acct["delivered"]:
                return
            token = acct["delivered"][op["arg"] % len(acct["delivered"])][0]
            ctx.fault("attack_replay")
        elif kind == "neighbour":
            token = ref_hotp(acct["key"], max(0, cur + op["arg"]), a["alg"], a["digits"])
            ctx.fault("attack_neighbour")
        elif kind == "future":
            token = ref_hotp(acct["key"], cur + 1 + (acct["window"] // per) + abs(op["arg"]), a["alg"], a["digits"])
            ctx.fault("attack_neighbour")
        elif kind == "last_counter_code":
            if acct["last_counter"] is None:
                return
            token = ref_hotp(acct["key"], acct["last_counter"], a["alg"], a["digits"])
            ctx.fault("attack_replay")
        elif kind == "corrupt":
            t = list(ref_hotp(acct["key"], cur, a["alg"], a["digits"]))
            p = op["pos"] % len(t)
            t[p] = str((int(t[p]) + 1 + op["digit"] % 9) % 10)
            token = "".join(t)
            ctx.fault("attack_corrupt")
        elif kind == "wrong_length":
            t = ref_hotp(acct["key"], cur, a["alg"], a["digits"])
            token = [t[:-1], t + "0", t[1:], "0" + t, int("1" + t)][op["pos"] % 5]
            ctx.fault("attack_wrong_length")
        elif kind == "letters":
            t = ref_hotp(acct["key"], cur, a["alg"], a["digits"])
            token = [t[:-1] + "a", "x" * a["digits"], t[:2] + "." + t[2:], t + "\x00", b"\xff" * a["digits"]][op["pos"] % 5]
            if isinstance(token, bytes):
                return  # non-UTF-8 bytes: to_unicode's own error class is not fixed by the statement
            ctx.fault("attack_wrong_length")
        elif kind == "empty":
            token = ["", " ", "-", "      "][op["pos"] % 4]
            ctx.fault("attack_wrong_length")
        elif kind == "bytes_junk":
            # the CURRENT code as bytes with a non-ASCII byte sequence inside: not a code, whatever a lenient decoder makes of it
            t = ref_hotp(acct["key"], cur, a["alg"], a["digits"]).encode("ascii")
            p = op["pos"] % (len(t) + 1)
            token = t[:p] + [b"\xff", b"\xe2\x80\x93", b"\xc3"][op["digit"] % 3] + t[p:]
            ctx.fault("attack_corrupt")
        elif kind == "not_a_code":
            # (F46) the CURRENT code spelled so that a lenient reader takes it for a code of the right length: a negative int
            # whose rendering has exactly `digits` characters, or the code in decimal digits of another script
            t = ref_hotp(acct["key"], cur, a["alg"], a["digits"])
            token = [-(int(t) % 10 ** (a["digits"] - 1)), -int(t),
                     t.translate({48 + i: 0x0660 + i for i in range(10)}),
                     t.translate({48 + i: 0xFF10 + i for i in range(10)}),
                     t[:-1] + "\u00b2"][op["pos"] % 5]
            ctx.fault("attack_corrupt")
        else:
            return
        self.submit(ai, token, op.get("tmode", "now"))

    # -- faults ----------------------------------------------------------------------------------
    def clock_step(self, op):
        self.faults_seen = True
        if op["who"] == "server":
            self.server_clock.off += op["dt"]
            self.ctx.fault("server_clock_step")
        else:
            i = int(op["who"][3:])
            if i < len(self.devices):
                self.devices[i]["clock"].off += op["dt"]
                self.ctx.fault("device_clock_step")

    def resync(self, op):
        if op["dev"] < len(self.devices):
            self.devices[op["dev"]]["clock"].off = self.server_clock.off

    def rekey(self, op):
        """history on one object: the live server object gets a new secret; codes, serialised forms and matching follow it"""
        ctx = self.ctx
        ai = op["acct"]
        if ai >= len(self.accounts):
            return
        acct = self.accounts[ai]
        a = acct["cfg"]
        obj = acct["totp"]
        new = bytes.fromhex(op["key"])
        ctx.fault("key_rotation")
        self.faults_seen = True  # codes in flight belong to the old secret: no liveness claim for this run any more
        with warnings.catch_warnings():
            warnings.simplefilter("ignore")
            # whatever the object caches per key exists by now
            obj.generate(int(self.T))
            self._serialise(obj, "dict")
            try:
                obj.key = new
            except Exception as e:
                ctx.fail("C13", "key-assignment-raises", f"{type(e).__name__}: {e}", exc=type(e).__name__)
            acct["key"] = new
            acct["last_counter"] = None
            acct["accepted"] = []
            ctx.check(obj.key == new, "C13", "key-spelling-differs", f"after assignment .key is {obj.key.hex()} not {new.hex()}", form="rekey")
            for t in (0, int(self.T), int(self.T) + 5 * a["period"] + 1):
                got = obj.generate(t).token
                want = ref_hotp(new, t // obj.period, obj.alg, obj.digits)
                ctx.check(got == want, "C13", "token-differs-from-rfc",
                          lambda: f"after key rotation on the live object: t={t} got {got!r} want {want!r} (alg={obj.alg} digits={obj.digits} period={obj.period})",
                          tform="rekey")
            acct["durable"] = self._serialise(obj, a["durable_form"])
        # the account's devices receive the new secret through a serialised form (C15 round trip of the re-keyed object)
        for dev in self.devices:
            if dev["cfg"]["acct"] == ai:
                self._provision(dev, op["form"], "none", op["factory"], check=True)
        if ctx.prop in ("C13", "C15"):
            ctx.nontrivial = True

    def restart(self, op):
        ctx = self.ctx
        ai = op["acct"]
        if ai >= len(self.accounts):
            return
        acct = self.accounts[ai]
        a = acct["cfg"]
        ctx.fault("server_restart")
        self.faults_seen = True
        old = acct["totp"]
        fac = self._factory(a, self.server_clock)  # a new process builds its factory again
        with warnings.catch_warnings(record=True):
            warnings.simplefilter("always")
            try:
                new = fac.from_source(acct["durable"])
            except Exception as e:
                ctx.fail("C15", "durable-record-unreadable", f"{a['durable_form']}: {type(e).__name__}: {e}",
                         form=a["durable_form"], exc=type(e).__name__)
        form = a["durable_form"]
        for name in ("key", "alg", "digits", "period", "label", "issuer"):
            want, got = getattr(old, name), getattr(new, name)
            ctx.check(want == got, "C15", "roundtrip-field-differs",
                      lambda: f"restart from {form}, class defaults {a.get('factory')}: {name} {want!r} -> {got!r}",
                      field=name, form=form, factory_defaults=bool(a.get("factory")))
        for t in (0, int(self.T), int(self.T) + 3 * a["period"] + 1):
            ctx.check(new.generate(t).token == ref_hotp(acct["key"], t // a["period"], a["alg"], a["digits"]),
                      "C15", "roundtrip-token-differs", f"after restart from {form} at t={t}", form=form)
        # the second serialisation is a fixed point
        again = self._serialise(new, form)
        ctx.check(again == acct["durable"], "C15", "reserialisation-differs", lambda: f"{acct['durable']!r} -> {again!r}", form=form)
        acct["totp"] = new
        acct["factory"] = fac
        ctx.log("restart", ai, form)
        if ctx.prop == "C15":
            ctx.nontrivial = True
            ctx.key("restart", form, sorted(a.get("factory") or {}), a["alg"] == "sha1", a["digits"] == 6, a["period"] == 30)

    def hostile(self, op):
        ctx = self.ctx
        ai = op["acct"]
        if ai >= len(self.accounts):
            return
        acct = self.accounts[ai]
        a = acct["cfg"]
        t = acct["totp"]
        kind = op["kind"]
        b32 = t.base32_key
        d = t.to_dict()
        d.pop("enckey", None)
        src = None
        if kind == "uri_conflicting_issuer":
            # two different issuer identifiers: unrelated ones, or ones that merely look alike (case, accents folded, blanks)
            pre, par = [("Acme", "Other"), ("Acme", "ACME"), ("example.org", "Example.org"), ("%C3%89cole", "%C3%A9cole"),
                        ("Stra%C3%9Fe", "STRASSE"), ("Acme", "Acme%20"), ("Acme", "acme"), ("Ac%20me", "Acme")][op["arg"] % 8]
            src = f"otpauth://totp/{pre}:joe?secret={b32}&issuer={par}"
        elif kind == "uri_duplicate_secret":
            src = f"otpauth://totp/joe?secret={b32}&secret={b32}"
        elif kind == "uri_duplicate_digits":
            src = f"otpauth://totp/joe?secret={b32}&digits=6&digits=8"
        elif kind == "uri_duplicate_param":
            # every parameter, given twice (the label also counts when it is repeated as a query parameter)
            name, val = [("label", "mallory"), ("issuer", "Acme"), ("algorithm", "SHA256"), ("period", "30"), ("digits", "6"),
                         ("secret", b32), ("foo", "1")][op["arg"] % 7]
            base = f"otpauth://totp/Acme:joe?secret={b32}&issuer=Acme&algorithm=SHA1&period=60&digits=8&foo=0"
            if op["arg"] % 3 == 2 and name != "foo":
                val = ""  # (the second occurrence is blank: still the parameter given twice)
            src = base + f"&{name}={val}"
        elif kind == "uri_missing_secret":
            # no secret at all, an empty one, or one that is nothing but separators / padding
            src = ["otpauth://totp/joe?issuer=x", "otpauth://totp/joe", "otpauth://totp/joe?secret=", "otpauth://totp/joe?secret=%20",
                   "otpauth://totp/joe?secret=-%3D", "otpauth://totp/joe?secret=%20-%20&issuer=x"][op["arg"] % 6]
        elif kind == "uri_unknown_type":
            src = f"otpauth://{['xotp', 'totp2', 'TOTPX', ''][op['arg'] % 4]}/joe?secret={b32}"
        elif kind == "uri_bad_digits":
            src = f"otpauth://totp/joe?secret={b32}&digits={['abc', '5', '11', '6.0', '-6'][op['arg'] % 5]}"
        elif kind == "uri_bad_period":
            src = f"otpauth://totp/joe?secret={b32}&period={['abc', '0', '-30', '1e3'][op['arg'] % 4]}"
        elif kind == "uri_wrong_scheme":
            src = f"otpauth://totp/joe?secret={b32}".replace("otpauth", ["otpauthx", "http"][op["arg"] % 2])
            if not src.startswith("otpauth://"):
                # from_source() hands any other string to the JSON loader: still a ValueError
                pass
        elif kind == "uri_many_colons":
            src = f"otpauth://totp/a:b:c?secret={b32}"
        elif kind == "uri_missing_label":
            src = [f"otpauth://totp/?secret={b32}", f"otpauth://totp?secret={b32}"][op["arg"] % 2]
        elif kind in ("json_missing_v", "dict_missing_v"):
            d.pop("v")
            src = d
        elif kind in ("json_bad_v", "dict_bad_v"):
            d["v"] = [0, 2, 99, -1, 1.5, 1.9, "1", "one", [1], 0.5][op["arg"] % 10]  # (unsupported numbers, fractions, non-numbers)
            src = d
        elif kind in ("json_missing_key", "dict_missing_key"):
            d.pop("key")
            if op["arg"] % 4:
                d["key"] = ["", None, "= -"][op["arg"] % 4 - 1]  # (present but empty / null / separators only: still no secret)
            src = d
        elif kind in ("json_unknown_type", "dict_unknown_type"):
            d["type"] = ["xotp", "", "TOTP"][op["arg"] % 3]
            src = d
        elif kind == "json_missing_type":
            d.pop("type")
            src = d
        elif kind == "json_truncated":
            s = t.to_json()
            src = s[: 1 + op["arg"] % (len(s) - 1)]
        elif kind == "json_not_object":
            src = ["[]", "3", '"x"', "null", "{}"][op["arg"] % 5]
        if src is None:
            return
        if kind.startswith("json") and isinstance(src, dict):
            src = json.dumps(src)
        ctx.fault("corrupt_source")
        with warnings.catch_warnings(record=True):
            warnings.simplefilter("always")
            try:
                obj = acct["factory"].from_source(src)
            except ValueError:
                obj = None
                outcome = "ValueError"
            except Exception as e:
                ctx.fail("C15", "hostile-source-wrong-error", f"{kind}: {src!r} raised {type(e).__name__}: {e}",
                         kind=kind, exc=type(e).__name__)
            else:
                ctx.fail("C15", "hostile-source-accepted", f"{kind}: {src!r} loaded as key={obj.hex_key} digits={obj.digits}",
                         kind=kind)
        ctx.n_checks += 1
        ctx.log("hostile", kind, outcome)
        if ctx.prop == "C15":
            ctx.nontrivial = True
            ctx.key("hostile", kind)


def _collide(w, op):
    """search (with the reference) two counters c1 < c2 that give the same code, let the server's clock reach c2's period,
    submit the code with a window that covers both: the earliest matching counter must be reported; then replay it"""
    ctx = w.ctx
    if op["acct"] >= len(w.accounts):
        return
    acct = w.accounts[op["acct"]]
    t = acct["totp"]
    per, digits, alg, key = t.period, t.digits, t.alg, t.key
    if digits > 7:
        return
    off = w.cfg.get("server_off", 0)
    cur = int(max(0, w.T + off)) // per
    lc = acct["last_counter"]
    lo = max(cur, (lc + 1) if lc is not None else 0)
    seen = {}
    pairs = []
    for c in range(lo, lo + op["span"]):
        tok = ref_hotp(key, c, alg, digits)
        if tok in seen:
            pairs.append((seen[tok], c, tok))
        else:
            seen[tok] = c
    if not pairs:
        ctx.probe("no_collision_found")
        return
    c1, c2, tok = pairs[op["pick"] % len(pairs)]
    # move time forward so that the server reads a time inside c2's period
    target = c2 * per + (op["pick"] % per) - off
    if target < w.T:
        return
    w.advance(target - w.T)
    acct["window"] = (c2 - c1 + 1) * per
    acct["skew"] = 0
    ctx.probe("collision_submitted")
    w.submit(op["acct"], tok, op.get("tmode", "now"))
    if op.get("replay"):
        w.advance(per)
        acct["window"] = (c2 - c1 + 2) * per
        w.submit(op["acct"], tok, op.get("tmode", "now"))


def _sweep(w, op):
    """every (time, window, skew, last_counter offset, candidate counter) of a small box, against the reference matcher"""
    from passlib.exc import InvalidTokenError, MalformedTokenError, UsedTokenError

    ctx = w.ctx
    if op["acct"] >= len(w.accounts):
        return
    acct = w.accounts[op["acct"]]
    key = acct["key"]
    per, digits = op["period"], op["digits"]
    alg = acct["totp"].alg
    with warnings.catch_warnings():
        warnings.simplefilter("ignore")
        t = w.TOTP(key=key, format="raw", period=per, digits=digits, alg=alg)
    n = 0
    for now in range(op["t0"], op["t0"] + op["span"] + 1):
        cnow = now // per
        for window in range(0, op["maxwin"] + 1):
            for skew in (-2, -1, 0, 1, 2):
                for lc in (None, cnow - 2, cnow - 1, cnow, cnow + 1):
                    if lc is not None and lc < 0:
                        continue
                    for c in range(max(0, cnow - 3), cnow + 4):
                        tok = ref_hotp(key, c, alg, digits)
                        try:
                            m = t.match(tok, time=now, window=window, skew=skew, last_counter=lc)
                            got = ("accept", m.counter)
                        except MalformedTokenError:
                            got = ("malformed",)
                        except UsedTokenError as e:
                            got = ("used", e.expire_time)
                        except InvalidTokenError:
                            got = ("invalid",)
                        except Exception as e:
                            ctx.fail("C14", "match-internal-error", f"sweep: match({tok!r}, time={now}, window={window}, skew={skew}, "
                                     f"last_counter={lc}) raised {type(e).__name__}: {e}", exc=type(e).__name__)
                        want = ref_match(key, alg, digits, per, tok, now, window, skew, lc)
                        if want[0] == "used":
                            want = ("used", (want[1] + 1) * per)
                        if got != want:
                            ctx.fail("C14", "decision-differs-from-reference",
                                     f"sweep: token of counter {c} at t={now} period={per} window={window} skew={skew} last_counter={lc}: "
                                     f"passlib {got} reference {want}", got=got[0], want=want[0])
                        n += 1
    ctx.n_checks += n
    ctx.extra["sweep_decisions"] = ctx.extra.get("sweep_decisions", 0) + n
    ctx.probe("exhaustive_boundary_sweeps")
    ctx.nontrivial = True
    ctx.key("sweep", per, op["maxwin"], digits)


def _cls(s):
    if s is None:
        return None
    return "".join(sorted({"A" if ch.isascii() and ch.isalnum() else "U" if not ch.isascii() else ch for ch in s}))


def _execute_threads(program, ctx):
    import random
    import sys

    from passlib import exc
    from passlib.totp import TOTP
    from simkit.sched import Scheduler, repo_prefixes

    cfg = program["cfg"]
    decisions = program["ops"] if cfg["strategy"] == "replay" else None
    sched = Scheduler(random.Random(cfg["seed"]), cfg["strategy"], cfg.get("sparams"), repo_prefixes(), max_steps=60000,
                      opcode_hot=cfg.get("opcode", False), hot_names=("_generate", "_pack_uint64", "_find_match", "normalize_token"),
                      decisions=decisions)
    objs = []
    with warnings.catch_warnings(record=True):
        warnings.simplefilter("always")
        for a in cfg["accounts"]:
            objs.append(TOTP(key=bytes.fromhex(a["key"]), format="raw", alg=a["alg"], digits=a["digits"], period=a["period"]))
    results = [None] * len(cfg["threads"])

    def make(i, calls):
        totp = objs[0] if cfg["shared"] else objs[i]

        def body(worker):
            out = []
            for kind, t, window in calls:
                try:
                    if kind == "generate":
                        tok = totp.generate(t)
                        out.append(["token", tok.token, tok.counter])
                    else:
                        a = cfg["accounts"][0 if cfg["shared"] else i]
                        code = ref_hotp(bytes.fromhex(a["key"]), t // a["period"], a["alg"], a["digits"])
                        if kind == "match":
                            m = totp.match(code, t, window=window)
                        else:
                            m = TOTP.verify(code, totp.to_dict(), time=t, window=window)
                        out.append(["match", m.counter, m.time])
                except exc.TokenError as e:
                    out.append(["refused", type(e).__name__])
                except Exception as e:  # noqa: BLE001
                    out.append(["raised", type(e).__name__, str(e)[:80]])
            results[i] = out
            return True
        return body

    for i, calls in enumerate(cfg["threads"]):
        sched.spawn(make(i, calls))
    finished = sched.run(timeout=50)
    sys.settrace(None)
    ctx.op(sum(len(c) for c in cfg["threads"]))
    ctx.sim_time += sched.step
    ctx.fault("preemption", max(0, len(sched.switches) - 1))
    ctx.log("switches", sched.switches)
    ctx.replay_program = {"cfg": dict(cfg, strategy="replay", sparams={}), "ops": [list(x) for x in sched.switches]}
    if sched.harness_error:
        raise core.HarnessError(f"threads: exception inside the scheduler's trace function: {sched.harness_error}")
    if sched.deadlock or not finished:
        raise core.HarnessError(f"threads: scheduler lost control / deadlock {sched.deadlock} (there is no lock in this code)")
    if sched.capped:
        ctx.probe("step_cap_hit")
        return
    for w in sched.workers:
        if w.result is not True:
            raise core.HarnessError(f"worker {w.idx} failed in the harness: {w.result}")
    ctx.log("outcomes", results)
    if len(sched.switches) > 1:
        ctx.nontrivial = True
        ctx.probe("threads_interleaved")
    ctx.key("threads", [list(x) for x in sched.switch_sites][:40])
    for i, calls in enumerate(cfg["threads"]):
        a = cfg["accounts"][0 if cfg["shared"] else i]
        key = bytes.fromhex(a["key"])
        for (kind, t, window), got in zip(calls, results[i]):
            c = t // a["period"]
            if kind == "generate":
                want = ["token", ref_hotp(key, c, a["alg"], a["digits"]), c]
                ctx.check(got == want, "C13", "token-differs-from-rfc",
                          lambda: f"thread {i} (of {len(calls)} running at once, shared object={cfg['shared']}): generate({t}) gave {got}, RFC says {want}; "
                                  f"switches={sched.switch_sites[:8]}", concurrent=True)
            else:
                # the thread's own correct code for time t, window >= 0: accepted at its own counter (an earlier counter only if
                # the same code happens to occur there)
                ok = got[0] == "match" and got[1] <= c and ref_hotp(key, got[1], a["alg"], a["digits"]) == ref_hotp(key, c, a["alg"], a["digits"]) \
                    and (got[1] == c or abs(got[1] - c) * a["period"] <= window + a["period"])
                ctx.check(ok, "C13", "own-code-not-accepted",
                          lambda: f"thread {i}: {kind}(own code for {t}, window={window}) gave {got}, counter should be {c}; "
                                  f"switches={sched.switch_sites[:8]}", concurrent=True)


def execute(program, ctx):
    cfg = program["cfg"]
    if cfg.get("mode") == "threads":
        return _execute_threads(program, ctx)
    w = _World(cfg, ctx)
    for op in program["ops"]:
        ctx.op()
        k = op["op"]
        if k == "emit":
            w.emit(op)
        elif k == "advance":
            w.advance(op["dt"])
        elif k == "attack":
            w.attack(op)
        elif k == "match_params":
            if op["acct"] < len(w.accounts):
                w.accounts[op["acct"]]["window"] = op["window"]
                w.accounts[op["acct"]]["skew"] = op["skew"]
        elif k == "clock_step":
            w.clock_step(op)
        elif k == "resync":
            w.resync(op)
        elif k == "restart":
            w.restart(op)
        elif k == "provision":
            if op["dev"] < len(w.devices):
                w._provision(w.devices[op["dev"]], op["form"], op["deco"], op["factory"], check=True, op=op)
        elif k == "hostile":
            w.hostile(op)
        elif k == "rekey":
            w.rekey(op)
        elif k == "sweep":
            _sweep(w, op)
        elif k == "collide":
            _collide(w, op)
    # deliver what is still in flight
    w.advance(max([q[0] for q in w.queue], default=w.T) - w.T)


def evaluations(total):
    return ("runs (each 8-120 operations; see ops_executed / checks_evaluated)", total["runs"])
