"""world `derive` -- property C09 (DESIGN.md section 4).

2-4 simulated clients customise hashers with using() -- chains of derivation from the process-wide
objects in passlib.hash -- and use parents and children interleaved. Oracle: a per-node sequential
model of the settings (window, default cost, salt size, ident, ...) with costs/salts read by the
independent field extractor, plus non-interference: the observable snapshot of every node the
current operation did not touch (in particular the passlib.hash globals and every parent) is
identical before and after.
"""

from __future__ import annotations

import warnings

from simkit.refmodels.extract import cost_of, extract
from simkit.refmodels.known_hashes import KNOWN, PW
from simkit.seams import SimRandom

NAME = "derive"
RULE = {
    "C09": "seeded interleavings (<=4 clients x <=15 ops) of derive(node, settings, relaxed) / derive-from-derived (depth <=4) / hash / "
           "needs_update / read_attrs / set_attr on a derived wrapper / set_backend over the global hashers; settings inside, at and beyond "
           "the hard limits, numbers as ints or strings; random source pinned so every hash is a deterministic string; after every op the "
           "touched node is compared with its sequential model and every untouched node's snapshot must be bit-identical; non-trivial = "
           ">=1 derived hasher was judged; distinct = distinct (hashers, option names used, depth, outcome classes)",
}
FAULT_KINDS = {"C09": ["beyond_hard_limit_strict", "beyond_hard_limit_relaxed", "inconsistent_settings", "rng_min", "rng_max", "attr_write_on_wrapper",
                       "backend_switch"]}
COMPONENTS = {
    "real": ["PasswordHash.using() of every palette hasher (HasRounds, HasSalt, HasManyIdents, TruncateMixin, ParallelismMixin, PrefixWrapper, "
             "bcrypt_sha256, scrypt, unix_disabled)", "hash / verify / needs_update of derived and global hashers"],
    "stub": ["process-wide random source (SimRandom pinned / range-min / range-max)", "clients (interleaved at operation granularity by the seeded generator)"],
    "unavailable": ["argon2, scram (expensive / many-digest formats left out of the palette)"],
}
ASSUMPTIONS = {"*": ["which inconsistent min/max/default combinations must be refused is not modelled: a refusal is always acceptable, a hasher "
                     "that then leaves the hard limits is not", "snapshots of hashers whose default cost is the shipped one never call hash()"]}

# hasher -> cheap cost range for generated settings
COST = {"sha256_crypt": (1000, 1300), "sha512_crypt": (1000, 1300), "bcrypt": (4, 6), "bcrypt_sha256": (4, 5), "pbkdf2_sha256": (1, 50),
        "pbkdf2_sha1": (1, 50), "sha1_crypt": (1, 50), "phpass": (7, 10), "scrypt": (1, 4), "bsdi_crypt": (1, 99),
        "django_pbkdf2_sha256": (1, 50), "ldap_sha256_crypt": (1000, 1300), "django_bcrypt": (4, 6), "pbkdf2_sha512": (1, 30),
        "fshp": (1, 50),
        # third batch: wrappers and families with their own using() plumbing
        "ldap_sha512_crypt": (1000, 1300), "ldap_sha1_crypt": (1, 50), "ldap_bcrypt": (4, 6), "django_pbkdf2_sha1": (1, 50),
        "grub_pbkdf2_sha512": (1, 30)}  # (sun_md5_crypt: 4096 base rounds make every hash cost 30 ms; left out)
LOGCOST = ("bcrypt", "bcrypt_sha256", "django_bcrypt", "scrypt", "phpass", "ldap_bcrypt")  # cost field is an exponent
SALTED = {"md5_crypt": "chars", "apr_md5_crypt": "chars", "sha256_crypt": "chars", "sha512_crypt": "chars", "sha1_crypt": "chars",
          "pbkdf2_sha256": "bytes", "pbkdf2_sha1": "bytes", "pbkdf2_sha512": "bytes", "ldap_salted_sha1": "bytes",
          "django_pbkdf2_sha256": "chars", "django_salted_sha1": "chars", "scrypt": "bytes", "bcrypt": "fixed", "des_crypt": "fixed",
          "bsdi_crypt": "fixed", "phpass": "fixed", "bcrypt_sha256": "fixed", "fshp": "bytes",
          "ldap_salted_md5": "bytes", "ldap_salted_sha256": "bytes", "ldap_salted_sha512": "bytes", "django_salted_md5": "chars",
          "django_pbkdf2_sha1": "chars", "grub_pbkdf2_sha512": "bytes", "ldap_sha512_crypt": "chars",
          "ldap_sha1_crypt": "chars", "ldap_bcrypt": "fixed"}
# algorithm-variant settings: hasher -> {keyword: {accepted spelling: value the hash must carry}}; anything else must be refused
FSHP_V = {0: 0, 1: 1, 2: 2, 3: 3, "0": 0, "1": 1, "2": 2, "3": 3, "sha1": 0, "sha256": 1, "sha384": 2, "sha512": 3}
PALETTE = sorted(set(COST) | set(SALTED) | {"ldap_md5_crypt", "unix_disabled", "hex_md5", "mysql41", "cisco_type7", "lmhash"})
CORE = ("sha256_crypt", "sha512_crypt", "bcrypt", "bcrypt_sha256", "pbkdf2_sha256", "pbkdf2_sha1", "sha1_crypt", "phpass", "scrypt", "bsdi_crypt",
        "django_pbkdf2_sha256", "ldap_sha256_crypt", "django_bcrypt", "pbkdf2_sha512", "md5_crypt", "apr_md5_crypt", "ldap_salted_sha1",
        "django_salted_sha1", "des_crypt", "ldap_md5_crypt", "unix_disabled", "hex_md5", "mysql41")
IDENTS = {"bcrypt": ["2a", "2b", "2y", "2", "$2b$", "9z"], "phpass": ["P", "H", "$P$", "Q"], "django_bcrypt": ["2a", "2b"],
          "bcrypt_sha256": ["2a", "2a", "2b"]}
TRUNC = {"bcrypt": 72, "des_crypt": 8, "django_bcrypt": 72, "lmhash": 14}  # hasher -> size limit in bytes of the ENCODED password
TRUNC_ENC = {"lmhash": "cp437"}  # (lmhash hashes the password in the OEM code page: one byte per character; the others in UTF-8)
ATTRS = ["name", "default_rounds", "min_rounds", "max_rounds", "min_desired_rounds", "max_desired_rounds", "vary_rounds", "rounds_cost",
         "default_salt_size", "min_salt_size", "max_salt_size", "default_ident", "truncate_error", "truncate_size", "default_marker", "version",
         "block_size", "parallelism", "setting_kwds", "context_kwds", "ident_values", "salt_chars", "checksum_size"]


# ---------------------------------------------------------------------------------------------
# generation
# ---------------------------------------------------------------------------------------------
def _num(rng, v):
    return str(v) if rng.random() < 0.2 else v


def _gen_settings(rng, name):
    kw = {}
    if name in COST:
        lo, hi = COST[name]
        r = rng.random()
        vals = sorted(rng.randint(lo, hi) for _ in range(3))
        if r < 0.25:
            kw["rounds"] = _num(rng, vals[1])
            # 'rounds' pins default, minimum and maximum at once; each stays overridable on its own
            r2 = rng.random()
            if r2 < 0.2:
                kw[rng.choice(["min_rounds", "min_desired_rounds"])] = _num(rng, vals[0])
            elif r2 < 0.4:
                kw[rng.choice(["max_rounds", "max_desired_rounds"])] = _num(rng, vals[2])
        else:
            if rng.random() < 0.6:
                kw[rng.choice(["min_rounds", "min_desired_rounds"])] = _num(rng, vals[0])
            if rng.random() < 0.6:
                kw[rng.choice(["max_rounds", "max_desired_rounds"])] = _num(rng, vals[2])
            if rng.random() < 0.7:
                kw["default_rounds"] = _num(rng, vals[1])
        if rng.random() < 0.2:
            kw["vary_rounds"] = rng.choice([1, 2, 0.1, 0.5, "10%", "1"])
        if rng.random() < 0.18:
            # beyond the hard limits / inconsistent
            k = rng.choice(["min_rounds", "max_rounds", "default_rounds", "rounds"])
            kw.pop("min_desired_rounds", None) if k == "min_rounds" else None
            kw.pop("max_desired_rounds", None) if k == "max_rounds" else None
            kw[k] = rng.choice([0, -1, lo - 1 if lo > 1 else 0,
                                2 ** 33, 10 ** 10, 99 if name in LOGCOST else 2 ** 40])
    if name in SALTED and rng.random() < 0.4:
        kind = SALTED[name]
        kw[rng.choice(["salt_size", "salt_size", "default_salt_size"])] = _num(rng, rng.choice([0, 1, 2, 4, 8, 16, 22, 31, 64, 1024, 5000, -1]))
    if SALTED.get(name) == "chars" and rng.random() < 0.12:
        # a FIXED salt (text or bytes): legal characters, or one character outside the format's salt alphabet
        sv = rng.choice(["abcdefgh", "ab.d/fgh", "ab$cd", "ab cd", "ab:cd", "abéd"])
        kw["salt"] = sv if rng.random() < 0.5 or not sv.isascii() else {"b": sv}  # {"b": ...}: handed over as bytes
    if name in IDENTS and rng.random() < 0.5:
        kw["ident"] = rng.choice(IDENTS[name])
        if rng.random() < 0.3:
            # the identifier as bytes, as an alias or in its canonical '$..$' spelling
            kw["ident"] = {"b": kw["ident"] if rng.random() < 0.4 or kw["ident"].startswith("$") else "$" + kw["ident"] + "$"}
    if name == "bcrypt_sha256" and rng.random() < 0.4:
        kw["version"] = rng.choice([1, 2, 2, 3])
    if name == "cisco_type7" and rng.random() < 0.8:
        kw["salt"] = rng.choice([-5, -1, 0, 7, 33, 52, 53, 99])  # the one hasher with an integer salt: hard limits 0..52
    if name == "fshp" and rng.random() < 0.6:
        kw["variant"] = rng.choice([0, 0, 1, 2, 3, "0", "2", "sha1", "sha384", "sha512", 4, "md5"])
    if name == "scrypt" and rng.random() < 0.4:
        kw[rng.choice(["block_size", "parallelism"])] = rng.choice([1, 2, 8, 0, 2 ** 31, "0", "2", "8", "-1"])
    if name in ("bcrypt", "des_crypt", "django_bcrypt", "lmhash") and rng.random() < 0.3:
        kw["truncate_error"] = rng.choice([True, False, "true", "false"])
    if name == "scrypt" and rng.random() < 0.3:
        kw["ident"] = rng.choice(["$7$", "$7$", "$scrypt$", {"b": "$7$"}, {"b": "$scrypt$"}])
    if name == "scrypt" and rng.random() < 0.2:
        kw["salt"] = {"b": rng.choice(["fixedsaltvalue", "abcd", "0123456789abcdef"])}  # a fixed raw salt, handed over as bytes
    if name == "unix_disabled" and rng.random() < 0.7:
        kw["marker"] = rng.choice(["!", "*", "!!", "x", ""])
    if rng.random() < 0.05:
        kw["no_such_setting"] = 1
    return kw


def generate(rng, prop, tier):
    # the first palette (hashers with the richest option surface: costs, idents, truncation, backends) keeps 60% of the weight;
    # the later additions share the rest -- widening the palette must not thin out the runs that reach the rare combinations
    core = [h for h in PALETTE if h in CORE]
    ext = [h for h in PALETTE if h not in CORE]
    hashers = []
    for _ in range(rng.choice([1, 2, 2, 3])):
        h = rng.choice(core if rng.random() < 0.6 or not ext else ext)
        if h not in hashers:
            hashers.append(h)
    nclients = rng.choice([2, 2, 3, 4])
    ops = []
    nnodes = len(hashers)  # nodes 0..len-1 are the globals; derive ops append
    owners = {i: None for i in range(nnodes)}
    base = {i: hashers[i] for i in range(nnodes)}
    depth = {i: 0 for i in range(nnodes)}
    for _ in range(rng.randint(6, 30 if tier == "quick" else 50)):
        c = rng.randrange(nclients)
        mine = [n for n, o in owners.items() if o == c]
        r = rng.random()
        if r < 0.35 or not mine:
            cand = [n for n in owners if owners[n] in (None, c) and depth[n] < 4]
            parent = rng.choice(cand)
            ops.append({"op": "derive", "client": c, "parent": parent, "settings": _gen_settings(rng, base[parent]),
                        "relaxed": rng.random() < 0.4})
            owners[nnodes] = c
            base[nnodes] = base[parent]
            depth[nnodes] = depth[parent] + 1
            nnodes += 1
        elif r < 0.65:
            ops.append({"op": "hash", "client": c, "node": rng.choice(mine), "pw": rng.choice(["pw", "x", "pässword", "L" * 80, "123456789"])})
        elif r < 0.8:
            ops.append({"op": "needs_update", "client": c, "node": rng.choice(mine), "where": rng.choice(["below", "at-min", "inside", "at-max", "above"])})
        elif r < 0.9:
            ops.append({"op": "use_global", "client": c, "node": rng.randrange(len(hashers)), "what": rng.choice(["verify", "needs_update", "identify"])})
        elif r < 0.95:
            ops.append({"op": "set_attr", "client": c, "node": rng.choice(mine), "name": rng.choice(["default_rounds", "max_desired_rounds", "vary_rounds", "default_salt_size"]),
                        "value": rng.choice([5, 1234, 9])})
        elif r < 0.98:
            ops.append({"op": "set_backend", "client": c, "node": rng.choice(mine), "name": rng.choice(["builtin", "os_crypt", "any"])})
        else:
            ops.append({"op": "rng_mode", "mode": rng.choice(["pinned", "min", "max"])})
    # scenario: a varying parent is used, then a child narrows only the window and is used (both ends of the range)
    costed = [i for i, h in enumerate(hashers) if h in COST]
    if costed and rng.random() < 0.35:
        g = rng.choice(costed)
        lo, hi = COST[hashers[g]]
        d = rng.randint(lo + (hi - lo) // 3, hi - (hi - lo) // 3)
        v = rng.choice([0.2, 0.5, max(1, (hi - lo) // 3)]) if hashers[g] not in LOGCOST else 1
        c = rng.randrange(nclients)
        par = nnodes
        sc = [{"op": "derive", "client": c, "parent": g, "settings": {"default_rounds": d, "vary_rounds": v, "min_rounds": lo, "max_rounds": hi}, "relaxed": False},
              {"op": "rng_mode", "mode": rng.choice(["min", "max", "pinned"])},
              {"op": "hash", "client": c, "node": par, "pw": "pw"},
              {"op": "derive", "client": c, "parent": par, "settings": {"min_rounds": max(lo, d - max(1, (d - lo) // 3)), "max_rounds": min(hi, d + max(1, (hi - d) // 3))}, "relaxed": False},
              {"op": "hash", "client": c, "node": par + 1, "pw": "pw"},
              {"op": "rng_mode", "mode": rng.choice(["max", "min"])},
              {"op": "hash", "client": c, "node": par + 1, "pw": "pw"},
              {"op": "hash", "client": c, "node": par, "pw": "pw"}]
        if rng.random() < 0.5:
            sc[2], sc[3] = sc[3], sc[2]
            sc[2] = dict(sc[2])
        ops.extend(sc)
        nnodes += 2
    # scenario: a truncation policy is switched on and off again along a chain, and both links hash an over-long password
    trunc = [i for i, h in enumerate(hashers) if h in TRUNC]
    if trunc and rng.random() < 0.4:
        g = rng.choice(trunc)
        c = rng.randrange(nclients)
        first, second = rng.choice([(True, False), (True, False), (False, True), ("true", "false")])
        long_pw = "L" * 80 if hashers[g] != "des_crypt" else rng.choice(["123456789", "pässwörd"])
        if hashers[g] == "lmhash":
            long_pw = rng.choice(["é" * 10, "é" * 14, "x" * 15, "é" * 15])  # (10 or 14 characters fit, whatever UTF-8 would make of them)
        cost = {"rounds": COST[hashers[g]][0]} if hashers[g] in COST else {}
        if hashers[g] == "bcrypt" and rng.random() < 0.6:
            cost["ident"] = rng.choice(["2", "2", "2a", "2y", "2b"])  # (the legacy variants prepare the password differently)
        ops.extend([{"op": "derive", "client": c, "parent": g, "settings": dict(cost, truncate_error=first), "relaxed": False},
                    {"op": "derive", "client": c, "parent": nnodes, "settings": {"truncate_error": second}, "relaxed": False},
                    {"op": "hash", "client": c, "node": nnodes + 1, "pw": long_pw},
                    {"op": "hash", "client": c, "node": nnodes, "pw": long_pw}])
        nnodes += 2
    # scenario: a wrapper version / bcrypt variant pair is set in one step and half of it changed in the next
    if "bcrypt_sha256" in hashers and rng.random() < 0.4:
        g = hashers.index("bcrypt_sha256")
        c = rng.randrange(nclients)
        v1, i1 = rng.choice([(1, "2a"), (1, "2a"), (1, "2b"), (2, "2b")])
        second = rng.choice([{"version": 2}, {"version": 2}, {"ident": "2a"}, {"version": 1}])
        ops.extend([{"op": "derive", "client": c, "parent": g, "settings": {"rounds": 4, "version": v1, "ident": i1}, "relaxed": False},
                    {"op": "derive", "client": c, "parent": nnodes, "settings": second, "relaxed": False},
                    {"op": "hash", "client": c, "node": nnodes + 1, "pw": "pw"},
                    {"op": "hash", "client": c, "node": nnodes, "pw": "pw"}])
        nnodes += 2
    return {"cfg": {"hashers": hashers, "clients": nclients, "seed": rng.getrandbits(32)}, "ops": ops}


def simplify_op(op):
    out = []
    if op.get("op") == "derive":
        for k in list(op["settings"]):
            s = dict(op["settings"])
            del s[k]
            out.append(dict(op, settings=s))
        if op.get("relaxed"):
            out.append(dict(op, relaxed=False))
    return out


# ---------------------------------------------------------------------------------------------
# execution
# ---------------------------------------------------------------------------------------------
def _call(fn, *a, **k):
    with warnings.catch_warnings():
        warnings.simplefilter("ignore")
        try:
            return ("ok", fn(*a, **k))
        except Exception as e:
            return ("exc", type(e).__name__, e)


def _int(v):
    if isinstance(v, str):
        return int(v)
    return v


class _Node:
    def __init__(self, H, base, parent=None):
        self.H = H
        self.base = base
        self.parent = parent
        self.depth = 0 if parent is None else parent.depth + 1
        self.lo = self.hi = self.d = None
        self.vary = 0
        self.salt_size = None
        self.ident = None
        self.variant = {}  # algorithm-variant settings in force (fshp variant, bcrypt_sha256 version, scrypt block_size / parallelism)
        self.trunc = None  # truncation policy (hashers with a size limit): True = refuse over-long passwords
        self.known = True  # False: settings were inconsistent -> only the hard limits are judged
        self.dirty = False  # attribute written directly by its owner: model no longer speaks about costs
        self.expensive = parent is None  # shipped defaults: never call hash()


class _W:
    def __init__(self, cfg, ctx):
        import passlib.hash

        self.ctx = ctx
        self.ph = passlib.hash
        self.rng = SimRandom(cfg["seed"], ctx).install()
        self.rng.mode = "pinned"
        self.nodes = []
        for name in cfg["hashers"]:
            H = getattr(passlib.hash, name)
            n = _Node(H, name)
            n.d = getattr(H, "default_rounds", None)
            n.lo = getattr(H, "min_desired_rounds", None)
            n.hi = getattr(H, "max_desired_rounds", None)
            n.salt_size = getattr(H, "default_salt_size", None)
            n.trunc = bool(getattr(H, "truncate_error", False)) if name in TRUNC else None
            self.nodes.append(n)
        self.nglobals = len(self.nodes)
        self.outcomes = set()
        self.optnames = set()

    # -- facts about the format (hard limits), read once from the unconfigured global ----------------------
    def hard(self, base):
        H = getattr(self.ph, base)
        return (getattr(H, "min_rounds", None), getattr(H, "max_rounds", None), getattr(H, "min_salt_size", None), getattr(H, "max_salt_size", None))

    # -- snapshots --------------------------------------------------------------------------------------------
    def snapshot(self, n):
        H = n.H
        snap = []
        for a in ATTRS:
            try:
                v = getattr(H, a, "<absent>")
            except Exception as e:
                v = f"<{type(e).__name__}>"
            snap.append((a, repr(v)))
        k = KNOWN.get(n.base)
        if k is not None:
            snap.append(("verify", _call(H.verify, PW, k)[:2]))
            snap.append(("verify-wrong", _call(H.verify, "nope", k)[:2]))
            snap.append(("needs_update", _call(H.needs_update, k)[:2]))
            snap.append(("identify", _call(H.identify, k)[:2]))
        if not n.expensive and not n.dirty and n.base in COST and n.d is not None and n.known:
            mode, self.rng.mode = self.rng.mode, "pinned"
            snap.append(("hash", _call(H.hash, "snapshot-pw")[:2]))
            self.rng.mode = mode
        return snap

    def snapshots(self, skip):
        return {i: self.snapshot(n) for i, n in enumerate(self.nodes) if i not in skip and n is not None}

    def compare(self, before, after, what):
        for i in before:
            if i in after and before[i] != after[i]:
                diff = [a for a, b in zip(before[i], after[i]) if a != b]
                n = self.nodes[i]
                self.ctx.fail("C09", "untouched-hasher-changed",
                              f"{what}: node {i} ({n.base}, depth {n.depth}{', GLOBAL passlib.hash.' + n.base if i < self.nglobals else ''}) changed: "
                              f"{diff[:3]} -> {[b for a, b in zip(before[i], after[i]) if a != b][:3]}",
                              hasher=n.base, which="global" if i < self.nglobals else "parent-or-sibling", attr=diff[0][0])
        self.ctx.n_checks += 1

    # -- the sequential model of using() ---------------------------------------------------------------------
    def model_using(self, parent, kw, relaxed):
        """-> (verdict, child) with verdict in ok / must-raise / either"""
        base = parent.base
        kw = dict(kw)
        if isinstance(kw.get("ident"), dict):
            kw["ident"] = kw["ident"]["b"]  # an identifier handed over as bytes means what the same text means
        for k_ in ("block_size", "parallelism"):
            if isinstance(kw.get(k_), str):
                kw[k_] = int(kw[k_])  # a number given as text (as read from a configuration file) means that number
        hmin, hmax, smin, smax = self.hard(base)
        c = _Node(None, base, parent)
        c.lo, c.hi, c.d, c.vary, c.salt_size, c.ident, c.known = parent.lo, parent.hi, parent.d, parent.vary, parent.salt_size, parent.ident, parent.known
        c.dirty = parent.dirty
        c.variant = dict(parent.variant)
        c.variant_unknown = getattr(parent, "variant_unknown", False)
        c.trunc = parent.trunc
        c.expensive = False
        verdict = "ok" if not parent.dirty else "either"
        try:
            vals = {k: _int(v) for k, v in kw.items() if k in ("min_rounds", "min_desired_rounds", "max_rounds", "max_desired_rounds", "default_rounds", "rounds")}
        except ValueError:
            return "either", c
        if base not in COST and vals:
            return "either", c
        if "no_such_setting" in kw:
            return "must-raise-type", c
        mn = vals.get("min_rounds", vals.get("min_desired_rounds"))
        mx = vals.get("max_rounds", vals.get("max_desired_rounds"))
        dflt = vals.get("default_rounds")
        if "rounds" in vals:
            r = vals["rounds"]
            mn = r if mn is None else mn
            mx = r if mx is None else mx
            dflt = r if dflt is None else dflt
        beyond = [v for v in (mn, mx, dflt) if v is not None and ((hmin is not None and v < hmin) or (hmax is not None and v > hmax))]

        def clamp(v):
            if v is None:
                return None
            if hmin is not None and v < hmin:
                v = hmin
            if hmax is not None and v > hmax:
                v = hmax
            return v

        cmn, cmx, cd = clamp(mn), clamp(mx), clamp(dflt)
        lo = cmn if mn is not None else parent.lo
        hi = cmx if mx is not None else parent.hi
        lifted = False
        if mn is not None and mx is None and parent.hi is not None and cmn is not None and cmn > parent.hi and "rounds" not in vals:
            # an explicit minimum above the INHERITED maximum moves the maximum along (F26): the window is [min, min]
            hi = cmn
            lifted = True
        d = cd if dflt is not None else parent.d
        # consistency of what was given together with what is inherited
        raw_lo = mn if mn is not None else parent.lo
        raw_hi = mx if mx is not None else (hi if lifted else parent.hi)
        consistent = True
        if raw_lo is not None and raw_hi is not None and raw_hi < raw_lo:
            consistent = False
        if lo is not None and hi is not None and hi < lo:
            consistent = False
        if dflt is not None and ((raw_lo is not None and dflt < raw_lo) or (raw_hi is not None and dflt > raw_hi)
                                 or (lo is not None and cd < lo) or (hi is not None and cd > hi)):
            consistent = False
        if not consistent or not parent.known:
            self.ctx.fault("inconsistent_settings")
            c.known = False
            verdict = "either"
        elif beyond:
            # a value outside the hard limits (and not merely inconsistent with what is inherited)
            if not relaxed:
                return ("must-raise" if verdict == "ok" else "either"), c
            self.ctx.fault("beyond_hard_limit_relaxed")
        c.lo, c.hi = lo, hi
        if d is not None:
            if lo and d < lo:
                d = lo
            if hi and d > hi:
                d = hi
        c.d = d
        if "vary_rounds" in kw:
            v = kw["vary_rounds"]
            if isinstance(v, str):
                v = float(v[:-1]) * 0.01 if v.endswith("%") else float(v) if "." in v else int(v)
            c.vary = v
        for k in ("salt_size", "default_salt_size"):
            if k in kw:
                try:
                    s = _int(kw[k])
                except ValueError:
                    return "either", c
                if base not in SALTED:
                    return "either", c
                if (smin is not None and s < smin) or (smax is not None and s > smax):
                    if not relaxed:
                        return "must-raise", c
                    self.ctx.fault("beyond_hard_limit_relaxed")
                    s = max(smin, min(s, smax)) if smax is not None else max(smin, s)
                c.salt_size = s
        if "ident" in kw and base == "bcrypt_sha256":
            # which (version, variant) pairs the wrapper allows along a chain is not modelled (version 2 insists on 2b); whatever is
            # accepted is judged by the hashes it makes: they must be the hasher's own, verify and carry the version in force
            verdict = "either" if verdict == "ok" else verdict
            c.variant["_ident_set"] = True
        elif "ident" in kw:
            if base in IDENTS:
                good = {"bcrypt": ["2a", "2b", "2y", "2"], "phpass": ["P", "H"], "django_bcrypt": ["2a", "2b"]}[base]
                good = good + ["$" + g_ + "$" for g_ in good]  # (alias or canonical spelling)
                if kw["ident"] not in good:
                    return "must-raise", c
                c.ident = kw["ident"].strip("$")
            elif base == "scrypt" and kw["ident"] in ("$7$", "$scrypt$"):
                c.variant["_scrypt_ident"] = kw["ident"]  # (both spellings carry the same fields; judged through the extractor)
            else:
                return "either", c
        if base == "scrypt" and c.variant.get("_scrypt_ident") == "$7$":
            # the '$7$' spelling stores a GENERATED salt as base64 text (4/3 of the configured size, and it must still fit into
            # 1024 bytes): the configured size is not what the hash shows, and very large sizes cannot be hashed at all
            if c.salt_size is not None and c.salt_size > 700:
                c.known = False
                verdict = "either" if verdict == "ok" else verdict  # (scrypt may refuse the pair right away: "salt too large")
            c.salt_size = None
        if "version" in kw:
            if kw["version"] not in (1, 2):
                return "must-raise", c
            verdict = "either" if verdict == "ok" and (kw["version"] == 1 or c.variant.get("_ident_set")) else verdict  # version x variant pairs: not modelled
            c.variant["version"] = kw["version"]
        if "block_size" in kw or "parallelism" in kw:
            verdict = "either" if verdict == "ok" else verdict
            c.known = False  # scrypt's own update check and memory limits depend on these: not modelled
            for k in ("block_size", "parallelism"):
                if k in kw:
                    # if the setting is accepted, hashes must carry it (relaxed: a value below the hard minimum 1 is clamped to it;
                    # the upper limits depend on each other and are not modelled)
                    if kw[k] > 1024:
                        c.variant.pop(k, None)
                        c.variant_unknown = True
                    else:
                        c.variant[k] = max(1, kw[k]) if relaxed else kw[k]
        if "salt" in kw and base == "scrypt":
            c.variant["fixed_salt_raw"] = kw["salt"]["b"] if isinstance(kw["salt"], dict) else kw["salt"]
            c.salt_size = None
        elif "salt" in kw and base != "cisco_type7":
            sv = kw["salt"]["b"] if isinstance(kw["salt"], dict) else kw["salt"]
            H0 = getattr(self.ph, base)
            legal = all(ch in H0.salt_chars for ch in sv)
            if not legal:
                return "must-raise", c  # (relaxed=True repairs a salt's SIZE, never its alphabet)
            if isinstance(kw["salt"], dict) and not relaxed:
                return "must-raise", c  # a bytes salt for a text-salt format is a type error unless relaxed=True decodes it
            smin_, smax_ = getattr(H0, "min_salt_size", None), getattr(H0, "max_salt_size", None)
            if (smin_ is not None and len(sv) < smin_) or (smax_ is not None and len(sv) > smax_):
                verdict = "either" if verdict == "ok" else verdict
                c.variant_unknown = True
            else:
                c.variant["fixed_salt"] = sv
                c.salt_size = None  # (a fixed salt is used as given; the configured salt size no longer decides)
        if "salt" in kw and base == "cisco_type7":
            v = kw["salt"]
            if 0 <= v <= 52:
                c.variant["salt"] = v
            elif not relaxed:
                return "must-raise", c
            else:
                self.ctx.fault("beyond_hard_limit_relaxed")
                c.variant["salt"] = 0 if v < 0 else 52  # clamped to the limit that was exceeded
        if "variant" in kw:
            if base != "fshp":
                return "either", c
            v = kw["variant"]
            if isinstance(v, bool) or v not in FSHP_V:
                return "must-raise", c
            c.variant["variant"] = FSHP_V[v]
        if "marker" in kw:
            if kw["marker"] not in ("!", "*", "!!"):
                return ("must-raise" if kw["marker"] == "x" else "either"), c
            if kw["marker"] == "!!":
                verdict = "either"
        if "truncate_error" in kw:
            if base not in TRUNC:
                verdict = "either"
            else:
                v = kw["truncate_error"]
                c.trunc = v if isinstance(v, bool) else str(v).lower() == "true"
        return verdict, c

    # -- judging a derived hasher ------------------------------------------------------------------------------
    def judge_hash(self, n, h, where):
        ctx = self.ctx
        base = n.base
        hmin, hmax, smin, smax = self.hard(base)
        ctx.check(isinstance(h, str), "C09", "hash-type", repr(h))
        ident_ok = _call(n.H.identify, h)
        ctx.check(ident_ok == ("ok", True), "C09", "derived-hasher-rejects-own-hash", f"{where}: {h!r} -> {ident_ok[:2]}", hasher=base)
        if base in COST:
            c = cost_of(h, base)
            ctx.check(c is not None, "C09", "cost-unreadable", f"{where}: {h!r}", hasher=base)
            # (3) never outside the hard limits
            ctx.check((hmin is None or c >= hmin) and (hmax is None or c <= hmax), "C09", "hash-outside-hard-limits",
                      f"{where}: {base} cost {c} outside [{hmin}, {hmax}]", hasher=base)
            no_odd = base == "bsdi_crypt" and n.lo and n.hi and n.lo == n.hi and n.lo % 2 == 0
            if n.known and not n.dirty and n.d is not None and not (n.lo and n.hi and n.lo > n.hi) and not no_odd:
                if n.vary:
                    inside = (not n.lo or c >= n.lo) and (not n.hi or c <= n.hi)
                    ctx.check(inside, "C09", "varied-cost-outside-window",
                              lambda: f"{where}: {base} window [{n.lo}, {n.hi}] default {n.d} vary {n.vary}: cost {c} (rng {self.rng.mode})", hasher=base)
                else:
                    want = n.d
                    same = c == want or (base == "bsdi_crypt" and want % 2 == 0 and abs(c - want) == 1 and (not n.hi or c <= n.hi))
                    ctx.check(same, "C09", "cost-differs-from-settings",
                              lambda: f"{where}: {base} window [{n.lo}, {n.hi}] default {n.d}: hash {h!r} has cost {c}", hasher=base)
                r = _call(n.H.needs_update, h)
                ctx.check(r == ("ok", False), "C09", "own-hash-needs-update", f"{where}: {h!r} -> {r[:2]}", hasher=base)
        if base in SALTED and n.salt_size is not None and SALTED[base] != "fixed" and not n.dirty and "fixed_salt" not in n.variant and "fixed_salt_raw" not in n.variant:
            ex = extract(h, only=(base,))
            if ex is not None:
                ctx.check(len(ex[2]) == n.salt_size, "C09", "salt-size-differs-from-settings",
                          lambda: f"{where}: {base} salt_size {n.salt_size}: hash {h!r} has a salt of {len(ex[2])}", hasher=base)
        if base in ("fshp", "bcrypt_sha256", "scrypt") and not n.dirty:
            ex = extract(h, only=(base,))
            ctx.check(ex is not None, "C09", "cost-unreadable", f"{where}: {h!r}", hasher=base)
            if base == "scrypt":
                carried = {"block_size": ex[1][1], "parallelism": ex[1][2]}
            else:
                carried = {"variant" if base == "fshp" else "version": ex[1][0]}
            default = {"variant": 1, "version": 2, "block_size": 8, "parallelism": 1}
            for k, got in carried.items():
                if k.startswith("_") or getattr(n, "variant_unknown", False):
                    continue
                want = n.variant.get(k, default[k])
                ctx.check(got == want, "C09", "variant-differs-from-settings",
                          lambda: f"{where}: {base} configured {k}={want!r} (settings in force {n.variant}): hash {h!r} carries {got!r}", hasher=base, setting=k)
        if "fixed_salt_raw" in n.variant and not n.dirty:
            ex = extract(h, only=(base,))
            ctx.check(ex is not None and ex[2] == n.variant["fixed_salt_raw"].encode("ascii"), "C09", "variant-differs-from-settings",
                      lambda: f"{where}: {base} configured salt={n.variant['fixed_salt_raw']!r}: hash {h!r} carries {None if ex is None else ex[2]!r}", hasher=base, setting="salt")
        if "fixed_salt" in n.variant and not n.dirty and not getattr(n, "variant_unknown", False):
            ex = extract(h, only=(base,))
            if ex is not None:
                got_salt = ex[2] if isinstance(ex[2], str) else None
                ctx.check(got_salt is None or got_salt == n.variant["fixed_salt"], "C09", "variant-differs-from-settings",
                          lambda: f"{where}: {base} configured salt={n.variant['fixed_salt']!r}: hash {h!r} carries {got_salt!r}", hasher=base, setting="salt")
        if base == "cisco_type7" and "salt" in n.variant and not n.dirty:
            ctx.check(h[:2].isdigit() and int(h[:2]) == n.variant["salt"], "C09", "variant-differs-from-settings",
                      lambda: f"{where}: cisco_type7 configured salt={n.variant['salt']}: hash {h!r} carries {h[:2]!r}", hasher=base, setting="salt")
        if n.ident and base in ("bcrypt", "phpass"):
            pre = "$" + n.ident + "$"
            ctx.check(h.startswith(pre), "C09", "ident-differs-from-settings", f"{where}: ident {n.ident}: {h!r}", hasher=base)
        ctx.nontrivial = True

    # -- ops ---------------------------------------------------------------------------------------------------
    def op_derive(self, op):
        ctx = self.ctx
        if op["parent"] >= len(self.nodes):
            self.nodes.append(None)
            return
        parent = self.nodes[op["parent"]]
        if parent is None:
            self.nodes.append(None)
            return
        kw = dict(op["settings"])
        self.optnames.update(kw)
        before = self.snapshots(skip=())
        verdict, child = self.model_using(parent, kw, op["relaxed"])
        if op["relaxed"]:
            kw["relaxed"] = True
        if isinstance(kw.get("salt"), dict):
            kw["salt"] = kw["salt"]["b"].encode("ascii")  # (the program file holds text; this setting is handed over as bytes)
        if isinstance(kw.get("ident"), dict):
            kw["ident"] = kw["ident"]["b"].encode("ascii")
        r = _call(parent.H.using, **kw)
        if op["relaxed"] and r[0] == "exc":
            # relaxed=True: a value below a hard minimum is clamped (with a warning), never refused as "too low" -- number or numeral
            for k_ in ("block_size", "parallelism"):
                v_ = op["settings"].get(k_)
                if v_ is not None and int(v_) < 1 and "too low" in str(r[2]):
                    ctx.fail("C09", "relaxed-setting-refused", f"{parent.base}.using({kw}) raised {r[1]}: {r[2]}", hasher=parent.base, setting=k_)
        after = self.snapshots(skip=())
        # (4) neither the parent nor anybody else changed -- whether the call succeeded or not
        self.compare(before, after, f"using({kw}) on node {op['parent']}")
        self.outcomes.add((parent.base, verdict, r[0] if r[0] == "ok" else r[1]))
        ctx.log("derive", op["parent"], sorted(kw.items(), key=str), verdict, r[0] if r[0] == "ok" else r[1])
        if r[0] == "exc" and parent.dirty:
            self.nodes.append(None)  # the client wrote attributes of this hasher directly: only non-interference is judged
            return
        if r[0] == "exc":
            ctx.check(isinstance(r[2], (ValueError, TypeError)), "C09", "using-internal-error", f"using({kw}) raised {r[1]}: {r[2]}", exc=r[1], hasher=parent.base)
            ctx.check(verdict != "ok", "C09", "valid-settings-refused",
                      lambda: f"{parent.base}.using({kw}) (parent window [{parent.lo}, {parent.hi}] default {parent.d}) raised {r[1]}: {r[2]}", hasher=parent.base)
            if verdict == "must-raise":
                ctx.fault("beyond_hard_limit_strict")
            self.nodes.append(None)
            return
        ctx.check(not verdict.startswith("must-raise"), "C09", "out-of-range-setting-accepted",
                  lambda: f"{parent.base}.using({kw}) was accepted; hard limits {self.hard(parent.base)}", hasher=parent.base)
        ctx.check(r[1] is not parent.H, "C09", "using-returned-same-object", f"{parent.base}.using({kw})", hasher=parent.base)
        child.H = r[1]
        self.nodes.append(child)
        # (3) the derived hasher's configured costs lie inside the format's hard limits -- read from its public attributes, because the
        # upper limits are far too expensive to observe by hashing (a default beyond them "never yields a hash" only by never being run)
        hmin, hmax, _, _ = self.hard(parent.base)
        if parent.base in COST and not parent.dirty:
            for a in ("default_rounds", "min_desired_rounds", "max_desired_rounds"):
                try:
                    v = getattr(child.H, a, None)
                except Exception:
                    v = None
                if isinstance(v, int) and not isinstance(v, bool):
                    ctx.check((hmin is None or v >= hmin) and (hmax is None or v <= hmax), "C09", "setting-outside-hard-limits",
                              lambda: f"{parent.base}.using({kw}) -> {a}={v}, hard limits [{hmin}, {hmax}]", hasher=parent.base, attr=a)
        if parent.base in COST and (child.d is not None) and child.d <= max(COST[parent.base][1] * 4, 5000) and parent.base not in LOGCOST \
                or (parent.base in LOGCOST and child.d is not None and child.d <= COST[parent.base][1] + 2):
            child.expensive = False
        elif parent.base in COST:
            child.expensive = True
        ctx.nontrivial = True

    def cheap(self, n):
        if n.base in COST:
            if n.expensive or n.d is None:
                return False
            cap = COST[n.base][1] + 2 if n.base in LOGCOST else 20000
            top = max(x for x in (n.d, n.hi or 0) if x is not None)
            # budget guard only (never an oracle): what the real hasher would actually spend -- inconsistent settings the model
            # does not follow (known=False) may have pushed its window far above the modelled one
            for a in ("default_rounds", "min_desired_rounds"):
                try:
                    v = getattr(n.H, a, None)
                except Exception:
                    v = None
                if isinstance(v, int):
                    top = max(top, v)
            if n.vary:
                top = int(top * 2) + 3 if n.base not in LOGCOST else top + 3
            return top <= cap and not n.dirty
        return True

    def op_hash(self, op):
        n = self.nodes[op["node"]] if op["node"] < len(self.nodes) else None
        if n is None or n.dirty or not self.cheap(n):
            return
        before = self.snapshots(skip=(op["node"],))
        r = _call(n.H.hash, op["pw"])
        self.compare(before, self.snapshots(skip=(op["node"],)), f"hash() on node {op['node']}")
        self.ctx.log("hash", op["node"], r[:2])
        if n.base in TRUNC and n.trunc is not None and not n.dirty:
            over = len(op["pw"].encode(TRUNC_ENC.get(n.base, "utf-8"))) > TRUNC[n.base]  # the limits count bytes of the encoded password
            refused = r[0] == "exc" and r[1] == "PasswordTruncateError"
            self.ctx.check(refused == (over and n.trunc), "C09", "truncation-policy-differs-from-settings",
                           lambda: f"{n.base} (depth {n.depth}) configured truncate_error={n.trunc}: hash of a {len(op['pw'].encode('utf-8'))}-byte password "
                                   f"(limit {TRUNC[n.base]}) -> {r[:2] if r[0] == 'exc' else 'hashed'}", hasher=n.base)
            if refused:
                return
        if r[0] == "exc":
            if n.base == "unix_disabled" or not n.known:
                return
            self.ctx.fail("C09", "derived-hasher-cannot-hash", f"{n.base} (window [{n.lo}, {n.hi}] default {n.d} vary {n.vary} salt_size {n.salt_size}) "
                          f"hash({op['pw']!r}) raised {r[1]}: {r[2]}", exc=r[1], hasher=n.base)
        if n.base == "unix_disabled":
            return
        self.judge_hash(n, r[1], f"node {op['node']}")
        v = _call(n.H.verify, op["pw"], r[1])
        self.ctx.check(v == ("ok", True), "C09", "own-hash-does-not-verify", f"{r[1]!r} -> {v[:2]}", hasher=n.base)

    def op_needs_update(self, op):
        """(2) the derived hasher's update check flags exactly the costs outside its window"""
        ctx = self.ctx
        n = self.nodes[op["node"]] if op["node"] < len(self.nodes) else None
        if n is None or n.base not in COST or not n.known or n.dirty or (n.lo and n.hi and n.lo > n.hi):
            return
        hmin, hmax, _, _ = self.hard(n.base)
        clo, chi = COST[n.base]
        lo, hi = n.lo, n.hi
        w = op["where"]
        cand = {"below": (lo - 1) if lo else None, "at-min": lo or None, "at-max": hi or None, "above": (hi + 1) if hi else None,
                "inside": ((lo or clo) + (hi or chi)) // 2}[w]
        if cand is None or cand < hmin or cand > min(hmax, chi * 3 if n.base not in LOGCOST else chi + 2):
            return
        if n.base == "bsdi_crypt" and cand % 2 == 0:
            return
        H0 = getattr(self.ph, n.base)
        mode, self.rng.mode = self.rng.mode, "pinned"
        mk = _call(lambda: H0.using(rounds=cand).hash("pw"))
        self.rng.mode = mode
        if mk[0] == "exc":
            return
        h = mk[1]
        want = bool((lo and cand < lo) or (hi and cand > hi))
        r = _call(n.H.needs_update, h)
        ctx.log("needs_update", op["node"], cand, r[:2])
        own = _call(H0.needs_update, h)
        if own == ("ok", True) and not want:
            return  # the format itself flags this string (e.g. an old variant)
        ctx.check(r == ("ok", want), "C09", "needs-update-differs-from-window",
                  lambda: f"{n.base} window [{lo}, {hi}]: needs_update(hash with cost {cand}) -> {r[:2]}, expected {want}", hasher=n.base, where=w)
        ctx.nontrivial = True

    def op_use_global(self, op):
        n = self.nodes[op["node"]]
        k = KNOWN.get(n.base)
        if k is None:
            return
        before = self.snapshots(skip=())
        if op["what"] == "verify":
            r = _call(n.H.verify, PW, k)
            self.ctx.check(r == ("ok", True), "C09", "global-hasher-misbehaves", f"passlib.hash.{n.base}.verify -> {r[:2]}", hasher=n.base)
        elif op["what"] == "needs_update":
            _call(n.H.needs_update, k)
        else:
            r = _call(n.H.identify, k)
            self.ctx.check(r == ("ok", True), "C09", "global-hasher-misbehaves", f"passlib.hash.{n.base}.identify -> {r[:2]}", hasher=n.base)
        self.compare(before, self.snapshots(skip=()), f"{op['what']} on the global {n.base}")

    def op_set_attr(self, op):
        """a client writes an attribute on ITS OWN derived hasher: nobody else may notice"""
        i = op["node"]
        n = self.nodes[i] if i < len(self.nodes) else None
        if n is None or i < self.nglobals:
            return
        if not hasattr(n.H, op["name"]):
            return
        before = self.snapshots(skip=self.descendants(i))
        r = _call(setattr, n.H, op["name"], op["value"])
        n.dirty = True
        for j in self.descendants(i):
            if self.nodes[j] is not None:
                self.nodes[j].dirty = True
        self.ctx.fault("attr_write_on_wrapper")
        self.compare(before, self.snapshots(skip=self.descendants(i)), f"setattr(node {i}, {op['name']!r})")

    def descendants(self, i):
        out = {i}
        changed = True
        while changed:
            changed = False
            for j, n in enumerate(self.nodes):
                if n is not None and n.parent is not None and j not in out:
                    pj = self.nodes.index(n.parent) if n.parent in self.nodes else None
                    if pj in out:
                        out.add(j)
                        changed = True
        return out

    def op_set_backend(self, op):
        i = op["node"]
        n = self.nodes[i] if i < len(self.nodes) else None
        if n is None or not hasattr(n.H, "set_backend"):
            return
        before = self.snapshots(skip=())
        r = _call(n.H.set_backend, op["name"])
        self.ctx.fault("backend_switch")
        # switching the backend changes who computes, never what any hasher (parent, child, global) answers
        self.compare(before, self.snapshots(skip=()), f"set_backend({op['name']!r}) on node {i}")

    def finish(self):
        self.ctx.key(sorted(n.base for n in self.nodes[: self.nglobals]), sorted(self.optnames), max((n.depth for n in self.nodes if n), default=0),
                     sorted(self.outcomes))


def execute(program, ctx):
    w = _W(program["cfg"], ctx)
    for op in program["ops"]:
        ctx.op()
        k = op["op"]
        if k == "derive":
            w.op_derive(op)
        elif k == "hash":
            w.op_hash(op)
        elif k == "needs_update":
            w.op_needs_update(op)
        elif k == "use_global":
            w.op_use_global(op)
        elif k == "set_attr":
            w.op_set_attr(op)
        elif k == "set_backend":
            w.op_set_backend(op)
        elif k == "rng_mode":
            w.rng.mode = op["mode"]
            if op["mode"] != "pinned":
                ctx.fault("rng_" + op["mode"])
    w.finish()


def prepare(prop, tier):
    import passlib.hash

    for s in PALETTE:
        getattr(passlib.hash, s)
