"""world `credstore` -- properties C04, C08, C10, C18 (DESIGN.md section 4).

An application around a CryptContext: a durable user table, a policy (generated configuration) that
an admin changes and that is exported / re-imported across restarts, the process-wide random source
under SimRandom, stored records damaged by storage faults, accounts disabled and restored.

mode "policy"    (C04): histories of register / login / import_legacy / policy_update vs PolicyModel
mode "storage"   (C08): stored hashes hit by storage faults; login path must reject cleanly, never verify
mode "config"    (C10): export/import, valid updates, and FAILED changes with every failure point enumerated
mode "lifecycle" (C18): disable / enable / login histories vs the disabled-record grammar
"""

from __future__ import annotations

import warnings

from simkit.core import dec, enc, repo_func
from simkit.refmodels.extract import cost_of, extract, extract_hex
from simkit.refmodels.known_hashes import MIN_COST
from simkit.refmodels.policy import PolicyModel
from simkit.refmodels.policy import merge as merge_policy, SchemeFacts
from simkit.seams import SimFS, SimRandom

NAME = "credstore"
RULE = {
    "C04": "seeded histories (<=40 ops) of register / login (verify_and_update + store) / identify / needs_update / import_legacy (hash "
           "made by the unconfigured handler at a cost below/at/inside/above the limits) / policy_update / login-until-fixed-point on a "
           "generated policy (1-5 schemes, order, default, deprecated list or auto, per-scheme min/max/default/vary rounds incl. values "
           "beyond hard limits, categories admin/staff with partial overrides), random source in stream/min/max mode; every answer is "
           "compared with an independent PolicyModel, costs read by an independent field extractor; non-trivial = >=1 hash attributed and "
           "judged; distinct = distinct (normalised configuration shape, multiset of op kinds, set of (scheme, cost class) seen)",
    "C08": "stored records of a generated user table are damaged by storage faults (substitute/delete/duplicate/insert a byte at a position, "
           "truncate, empty, replace by another record, swap fields, NUL/non-ASCII bytes, bytes instead of text; thorough: every position x a "
           "12-byte alphabet) and pushed through identify / verify / needs_update / verify_and_update on handler and context; non-trivial = "
           ">=1 damaged record judged; distinct = distinct (scheme, fault kind, position class, outcome class)",
    "C10": "generated configurations (as C04, plus string-typed numbers, percent/float vary_rounds, custom unregistered hashers) x steps: "
           "export/import through dict / INI string / INI file / copy / empty update, valid update, and FAILED change with the failure point "
           "enumerated: the k-th customisation call raising (k=1..N, 5 exception types), 15 kinds of invalid item x every insertion position, "
           "policy file missing/unreadable/read error per 64-byte block/truncated at every line/wrong section/non-UTF-8; evaluations = "
           "attempted changes; non-trivial = the observable snapshot was compared before/after; distinct = distinct (fault kind, position, "
           "number of categories, configuration shape)",
    "C18": "seeded histories of disable (with/without current hash) / disable again / enable / login (right, wrong, empty, the stored string "
           "itself) / is_enabled / verify(None) on records of every palette scheme, None, empty, bare markers, both marker styles, with "
           "unix_disabled or django_disabled at a random list position, policy updates and export/import in between; dummy-verify cost "
           "counted through a counting hasher; non-trivial = >=1 disabled record judged; distinct = distinct (disabled scheme, position, "
           "record shapes seen, op kinds)",
}
FAULT_KINDS = {
    "C04": ["platform_crypt_lacks_format", "cold_record", "rng_min", "rng_max", "cost_beyond_hard_limit", "legacy_below_min", "legacy_above_max", "policy_update"],
    "C08": ["platform_crypt_lacks_format", "cold_start", "subst", "delete", "dup", "insert", "truncate", "empty", "other_record", "other_scheme", "swap_fields", "nul", "nonascii",
            "garbage", "numeric_alias", "respell", "unicode_case_alias", "binary_form", "as_bytes"],
    "C10": ["platform_crypt_lacks_format", "change_is_first_use_of_lazy_context", "restart_via_object", "using_raises", "invalid_item", "policy_file_missing", "policy_file_unreadable", "policy_file_read_error",
            "policy_file_truncated", "policy_file_wrong_section", "policy_file_not_utf8", "restart_via_dict", "restart_via_ini",
            "restart_via_file"],
    "C18": ["platform_crypt_lacks_format", "disable_twice", "bare_marker", "empty_record", "none_record", "policy_update", "restart", "neighbour_context"],
}
COMPONENTS = {
    "real": ["passlib.context.CryptContext / _CryptConfig (load, update, copy, to_dict, to_string, from_string, from_path, load_path, hash, "
             "verify, identify, needs_update, verify_and_update, disable, enable, is_enabled, dummy_verify)",
             "every handler of the palettes incl. using() customisation", "configparser"],
    "stub": ["user table (dict)", "process-wide random source (SimRandom: stream / min / max / pinned)", "policy file (SimFS bound to "
             "passlib.context.open)", "storage-fault editor", "FaultyHasher (subclass of a real handler whose using() raises on the k-th call)"],
    "unavailable": ["argon2 (argon2-cffi not installed)"],
}
ASSUMPTIONS = {
    "*": ["generated configurations are well-formed (min <= default <= max after inheritance); category and scheme names are lower case",
          "every cost-bearing scheme gets an explicit cheap default_rounds (handler defaults are 10^5-10^6 rounds)"],
    "C04": ["the exact vary_rounds range is not modelled: varied costs must lie inside the configured window and the hard limits"],
    "C08": ["the field extractor is exact about values and strict about anchors and alphabets; the spellings it accepts are hex case, padding "
            "bits, '=' padding at the end, zero padding where a format allows it, bcrypt 2a/2b/2y; decimal fields are ASCII digits (F39)"],
    "C10": ["whether an inconsistent but accepted change should have been refused is not judged: if it raises the before/after snapshot must "
            "be equal, if it does not the result must equal a rebuild from the merged dictionary"],
    "C18": ["strings the context cannot attribute to any scheme are outside the model (documented UnknownHashError)"],
}

# scheme -> (lowest cheap cost, highest cheap cost, step)
COSTED = {
    "sha256_crypt": (1000, 1400, 1), "sha512_crypt": (1000, 1400, 1), "bcrypt": (4, 6, 1), "pbkdf2_sha256": (1, 60, 1),
    "pbkdf2_sha1": (1, 60, 1), "pbkdf2_sha512": (1, 40, 1), "phpass": (7, 10, 1), "sha1_crypt": (1, 60, 1), "bsdi_crypt": (1, 199, 2),
    "scrypt": (1, 4, 1), "django_pbkdf2_sha256": (1, 60, 1), "bcrypt_sha256": (4, 5, 1),
    # second batch: wrappers (settings travel through PrefixWrapper) and further families
    "django_pbkdf2_sha1": (1, 60, 1), "grub_pbkdf2_sha512": (1, 40, 1), "ldap_sha512_crypt": (1000, 1400, 1), "ldap_sha256_crypt": (1000, 1400, 1),
    "ldap_sha1_crypt": (1, 60, 1), "fshp": (1, 60, 1), "ldap_bcrypt": (4, 6, 1), "django_bcrypt": (4, 6, 1),
}
FIXED = ["md5_crypt", "apr_md5_crypt", "des_crypt", "ldap_salted_sha1", "ldap_sha1", "hex_md5", "django_salted_sha1", "mysql41", "nthash",
         "ldap_md5", "ldap_salted_md5", "hex_sha1", "ldap_md5_crypt", "hex_md4", "lmhash",
         "ldap_salted_sha256", "ldap_salted_sha512", "django_salted_md5", "mssql2005", "oracle11", "hex_sha256", "hex_sha512", "ldap_des_crypt"]
# PrefixWrapper objects (not classes): cannot be subclassed into counting / faulty hashers
WRAPPERS = ("ldap_md5_crypt", "ldap_sha256_crypt", "ldap_sha512_crypt", "ldap_sha1_crypt", "ldap_des_crypt", "ldap_bsdi_crypt", "ldap_bcrypt",
            "django_bcrypt")
# formats that claim each other's strings (32 hex digits): attribution goes to the first one configured
HEX32 = ("hex_md5", "nthash", "hex_md4", "lmhash")
C08_PALETTE = ["des_crypt", "bsdi_crypt", "md5_crypt", "apr_md5_crypt", "sha1_crypt", "sha256_crypt", "sha512_crypt", "bcrypt", "bcrypt_sha256",
               "pbkdf2_sha1", "pbkdf2_sha256", "pbkdf2_sha512", "ldap_salted_sha1", "ldap_sha1", "hex_md5", "phpass", "scrypt",
               "django_pbkdf2_sha256", "django_salted_sha1", "mysql41", "nthash",
               # second batch (after seeded change C08-e): formats with their own parsing quirks
               "sun_md5_crypt", "fshp", "ldap_salted_md5", "ldap_salted_sha256", "ldap_salted_sha512", "ldap_md5", "django_salted_md5",
               "django_pbkdf2_sha1", "atlassian_pbkdf2_sha1", "grub_pbkdf2_sha512", "mssql2000", "mssql2005", "oracle11", "ldap_md5_crypt",
               "ldap_sha256_crypt", "ldap_sha512_crypt", "ldap_sha1_crypt", "ldap_des_crypt", "ldap_bsdi_crypt", "ldap_bcrypt", "django_bcrypt",
               "hex_sha1", "hex_sha256", "hex_sha512", "cisco_type7", "scram", "django_des_crypt", "bigcrypt", "dlitz_pbkdf2_sha1"]
HEXLEN = {"hex_md5": 32, "nthash": 32, "hex_sha1": 40, "hex_sha256": 64, "hex_sha512": 128}
PWS = ["pw", "secret", "Pw", "pässword", "p w", "x", "correct horse"]
CATS = ["admin", "staff"]
SUBST = ["$", ".", "/", "0", "A", "z", "=", ",", " ", "\x00", "é", "*", "\n", "\r", "\t", "!", "+", "_", "-", "\u0660", "\uff11"]


# =============================================================================================
# configuration generator (shared by C04 / C10 / C18)
# =============================================================================================
def _triple(rng, scheme, beyond=True):
    lo, hi, step = COSTED[scheme]
    # (configured limits may be any integer; `step` only constrains costs the harness asks a handler for)
    vals = sorted(rng.randrange(lo, hi + 1) for _ in range(3))
    a, d, b = vals
    if beyond and rng.random() < 0.12:
        a = max(0, lo - rng.choice([1, 500, lo]))  # below the hard minimum: clamped
    return a, d, b


def gen_policy(rng, n_schemes=None, with_cats=True, stringly=False, disabled=None, truncate=False):
    """a well-formed policy; schemes that claim each other's strings (32-hex family) may be configured together, and a
    shadowed one may even be a default: hashes it makes are then, by the attribution rule, read as the earlier scheme's"""
    cfg = _gen_policy(rng, n_schemes, with_cats, stringly, disabled)
    if not truncate:
        cfg.pop("truncate_error", None)  # size-limit policy is property C05's business; only C10 exports it
    return cfg


def _gen_policy(rng, n_schemes=None, with_cats=True, stringly=False, disabled=None):
    names = sorted(COSTED) + FIXED
    if disabled:
        # mysql41 hashes begin with '*', which is also a disabled-account marker: inherently ambiguous next to unix_disabled
        names = [n for n in names if n != "mysql41"]
    n = n_schemes or rng.choice([1, 2, 2, 3, 3, 4, 5])
    schemes = rng.sample(names, n)
    if rng.random() < 0.15 and n >= 2:
        schemes[:2] = rng.sample(HEX32, 2)  # make "first configured scheme that claims it" matter
        schemes = list(dict.fromkeys(schemes))
    cfg = {"schemes": list(schemes)}
    merged = {}  # (cat, scheme) -> {min, default, max}
    for s in schemes:
        if s in COSTED:
            a, d, b = _triple(rng, s)
            o = {"default_rounds": d}
            r = rng.random()
            if r < 0.35:
                o["min_rounds"] = a
            elif r < 0.6:
                o["min_rounds"], o["max_rounds"] = a, b
            elif r < 0.75:
                o["max_rounds"] = b
            eff = dict(o)
            if rng.random() < 0.15:
                # the 'rounds' option: default, minimum and maximum at once, each still overridable on its own
                a = max(a, COSTED[s][0])
                d = max(d, a)
                o = {"rounds": d}
                r = rng.random()
                if r < 0.35:
                    o["min_rounds"] = a
                elif r < 0.7:
                    o["max_rounds"] = max(b, d)
                elif r < 0.8:
                    o["min_rounds"], o["max_rounds"] = a, max(b, d)
                eff = {"default_rounds": d, "min_rounds": o.get("min_rounds", d), "max_rounds": o.get("max_rounds", d)}
            if rng.random() < 0.2:
                o["vary_rounds"] = rng.choice([1, 2, 0.1, 0.25, 0.125, 0.005, "10%", "12.5%", "3", 1.0, "100%"])
            merged[(None, s)] = dict(eff)
            for k, v in o.items():
                cfg[f"{s}__{k}"] = str(v) if stringly and rng.random() < 0.3 and not isinstance(v, str) else v
    # deprecated / default
    r = rng.random()
    if len(schemes) > 1 and r < 0.35:
        dep = [s for s in schemes[1:] if rng.random() < 0.5]
        if dep:
            cfg["deprecated"] = dep
    elif len(schemes) > 1 and r < 0.55:
        cfg["deprecated"] = ["auto"] if rng.random() < 0.7 else "auto"
    if rng.random() < 0.35:
        cand = [s for s in schemes if s not in (cfg.get("deprecated") or []) or cfg.get("deprecated") in (["auto"], "auto")]
        cfg["default"] = rng.choice(cand)
    if rng.random() < 0.2:
        cfg[rng.choice(["vary_rounds", "vary_rounds", "all__vary_rounds"])] = rng.choice([1, 0.1, 0.25, 1.0, "100%"])
    if rng.random() < 0.1:
        cfg["truncate_error"] = rng.choice([True, False])
    cats = []
    if with_cats and rng.random() < 0.6:
        cats = rng.sample(CATS, rng.choice([1, 1, 2]))
        for c in cats:
            gdep = cfg.get("deprecated")
            gdefault = cfg.get("default")
            if len(schemes) > 1 and rng.random() < 0.4:
                if rng.random() < 0.5:
                    cdep = ["auto"]
                else:
                    cdep = [s for s in schemes if rng.random() < 0.4]
                    if len(cdep) == len(schemes):
                        cdep = cdep[1:]
                # the category's effective default must not be deprecated for it
                eff_default = gdefault
                if cdep != ["auto"] and eff_default in cdep:
                    cfg[f"{c}__context__default"] = rng.choice([s for s in schemes if s not in cdep])
                cfg[f"{c}__context__deprecated"] = cdep
            elif rng.random() < 0.3:
                cdeps = cfg.get("deprecated") if cfg.get("deprecated") not in (["auto"], "auto") else []
                cand = [s for s in schemes if s not in (cdeps or [])]
                cfg[f"{c}__context__default"] = rng.choice(cand)
            for s in schemes:
                if s in COSTED and rng.random() < 0.5:
                    base = merged[(None, s)]
                    a, d, b = _triple(rng, s, beyond=False)
                    new = {"min_rounds": a, "default_rounds": d, "max_rounds": b}
                    keys = [k for k in new if rng.random() < 0.5] or ["default_rounds"]
                    m = dict(base)
                    m.update({k: new[k] for k in keys})
                    lo_, hi_ = m.get("min_rounds"), m.get("max_rounds")
                    ok = (lo_ is None or lo_ <= m["default_rounds"]) and (hi_ is None or m["default_rounds"] <= hi_) and \
                         (lo_ is None or hi_ is None or lo_ <= hi_)
                    if not ok:
                        keys = list(new)
                    for k in keys:
                        cfg[f"{c}__{s}__{k}"] = new[k]
    if disabled:
        pos = rng.randrange(len(cfg["schemes"]) + 1)
        cfg["schemes"].insert(pos, disabled)
        if cfg.get("default") is None and pos == 0 and len(cfg["schemes"]) > 1:
            pass  # first non-deprecated scheme would be the disabled one: legal, hash() then yields the marker
    return cfg


def facts_for(schemes):
    import passlib.hash

    return {s: SchemeFacts(s, getattr(passlib.hash, s)) for s in schemes}


def build_context(cfg):
    from passlib.context import CryptContext

    cfg = dict(cfg)
    objs = cfg.pop("scheme_objects", None)
    with warnings.catch_warnings():
        warnings.simplefilter("ignore")
        if objs:
            # schemes handed over as pre-configured hasher OBJECTS (H.using(...)) instead of names plus '<scheme>__option' keys
            import passlib.hash

            def mk(s):
                kw = dict(objs[s])
                donor = kw.pop("_from_deprecating_context", False)
                h = getattr(passlib.hash, s).using(relaxed=True, **kw)
                if donor:
                    # the object comes out of ANOTHER application's context, where this scheme is deprecated: what that context
                    # thought of it must not follow it here
                    other = "md5_crypt" if s != "md5_crypt" else "sha256_crypt"
                    h = CryptContext(schemes=[other, h], deprecated=[s]).handler(s)
                return h

            cfg["schemes"] = [mk(s) if isinstance(s, str) and s in objs else s for s in cfg["schemes"]]
        return CryptContext(**cfg)


def _call(fn, *a, **k):
    with warnings.catch_warnings():
        warnings.simplefilter("ignore")
        try:
            return ("ok", fn(*a, **k))
        except Exception as e:
            return ("exc", type(e).__name__, e)


def _cost_class(c, lo, hi):
    if c is None:
        return "none"
    if lo is not None and c < lo:
        return "below"
    if hi is not None and c > hi:
        return "above"
    if c == lo:
        return "at-min"
    if c == hi:
        return "at-max"
    return "inside"


# =============================================================================================
# generation
# =============================================================================================
def generate(rng, prop, tier):
    gen = {"C04": _gen_policy_program, "C08": _gen_storage_program, "C10": _gen_config_program, "C18": _gen_lifecycle_program}[prop]
    program = gen(rng, tier)
    # the host: in a quarter of the runs its crypt(3) knows none of the formats, so every multi-backend scheme of the run works on
    # its pure-Python backend (selected on first use, after the platform candidate was tried and found unusable)
    program["cfg"]["crypt_lacks"] = rng.random() < 0.25
    return program


def _delta(rng, cfg, truncate=False):
    """a valid change of the policy: exactly these keys are replaced"""
    schemes = cfg["schemes"]
    d = {}
    r = rng.random()
    costed = [s for s in schemes if s in COSTED]
    if rng.random() < 0.15:
        # a context-wide (scheme-less) option, given in its bare spelling or through the 'all' pseudo-scheme
        k = rng.choice(["vary_rounds", "vary_rounds", "truncate_error" if truncate else "vary_rounds", "all__vary_rounds"])
        # (a value of None / "none": "no value given" -- the option is then as good as absent, and must not break the exports)
        return {k: rng.choice([0, 1, 0.1, 0.25, "10%", 1.0, "100%"]) if "vary" in k else rng.choice([True, False, True, False, None, "none"])}
    if r < 0.07 and costed:
        s = rng.choice(costed)
        a, dflt, b = _triple(rng, s, beyond=False)
        return {f"{rng.choice(['', 'admin__', 'staff__'])}{s}__rounds": dflt}
    if "fshp" in schemes and rng.random() < 0.3:
        d[f"{rng.choice(['', '', 'admin__'])}fshp__variant"] = rng.choice([0, 2, 3, "sha512", "0"])  # an algorithm-variant option
    if r < 0.4 and costed:
        s = rng.choice(costed)
        a, dflt, b = _triple(rng, s, beyond=False)
        d[f"{s}__min_rounds"] = a
        d[f"{s}__default_rounds"] = dflt
        d[f"{s}__max_rounds"] = b
    elif r < 0.6 and len(schemes) > 1:
        d["deprecated"] = rng.choice([["auto"], [schemes[-1]], []])
        if cfg.get("default") in d["deprecated"]:
            d["default"] = schemes[0]
    elif r < 0.8 and costed:
        s = rng.choice(costed)
        d[f"{s}__vary_rounds"] = rng.choice([0, 1, 0.1, 0.375, "10%", 1.0, "1.0"])
    elif costed:
        s = rng.choice(costed)
        c = rng.choice(CATS)
        a, dflt, b = _triple(rng, s, beyond=False)
        d[f"{c}__{s}__min_rounds"] = a
        d[f"{c}__{s}__default_rounds"] = dflt
        d[f"{c}__{s}__max_rounds"] = b
    return d


def _gen_policy_program(rng, tier):
    cfg = gen_policy(rng)
    if rng.random() < 0.2:
        # one scheme is handed to the context as a pre-configured hasher object: its default-level cost options travel inside the
        # object instead of as configuration keys (category-level keys and later updates still apply on top of it)
        cand = [s for s in cfg["schemes"] if s in COSTED and s not in WRAPPERS and any(k.startswith(s + "__") and k.split("__")[1] in ("min_rounds", "max_rounds", "default_rounds", "rounds") for k in cfg)]
        if cand:
            s = rng.choice(cand)
            obj = {}
            for k in list(cfg):
                parts = k.split("__")
                if len(parts) == 2 and parts[0] == s and parts[1] in ("min_rounds", "max_rounds", "default_rounds", "rounds"):
                    obj[parts[1]] = cfg.pop(k)
            if rng.random() < 0.4:
                obj["_from_deprecating_context"] = True
            cfg["scheme_objects"] = {s: obj}
    costed_here = [s for s in cfg["schemes"] if s in COSTED]
    if costed_here and rng.random() < 0.15:
        # a category-wide option through the 'all' pseudo-scheme: one limit for every scheme of that category
        s = rng.choice(costed_here)
        a, d, b = _triple(rng, s, beyond=False)
        cat = rng.choice(CATS)
        which = "max_rounds"  # (a category-wide MINIMUM would push log-cost schemes of the same context to unaffordable costs)
        cfg[f"{cat}__all__{which}"] = b
        cfg["_may_be_refused"] = True
    if "bcrypt_sha256" in cfg["schemes"] and rng.random() < 0.5:
        # the wrapper's format version is a setting too: a context configured for the older one must not flag its own hashes
        cfg[rng.choice(["bcrypt_sha256__version", "bcrypt_sha256__version", "admin__bcrypt_sha256__version"])] = rng.choice([1, 1, 2])
    users = [f"u{i}" for i in range(rng.randint(1, 6))]
    ops = []
    n = rng.randint(6, 30 if tier == "quick" else 40)
    cats = [None, None, "admin", "staff", "guest"]
    for _ in range(n):
        k = rng.choices(["register", "login", "login_wrong", "identify", "needs_update", "import_legacy", "policy_update", "fixed_point",
                         "rng_mode", "handler"], [5, 6, 2, 2, 4, 6, 1.5, 2, 1.5, 1])[0]
        u = rng.choice(users)
        cat = rng.choice(cats)
        if k == "register":
            ops.append({"op": k, "user": u, "pw": rng.choice(PWS), "cat": cat})
        elif k in ("login", "login_wrong", "identify", "fixed_point"):
            ops.append({"op": k, "user": u, "cat": cat})
        elif k == "needs_update":
            ops.append({"op": k, "user": u, "cat": cat})
        elif k == "import_legacy":
            ops.append({"op": k, "user": u, "scheme": rng.choice(cfg["schemes"]), "pw": rng.choice(PWS), "cat": cat,
                        "where": rng.choice(["below", "at-min", "inside", "at-max", "above", "hard-min", "any"]), "r": rng.random(),
                        "known": rng.random() < 0.2})
        elif k == "policy_update":
            d = _delta(rng, cfg)
            if d:
                ops.append({"op": k, "delta": d})
        elif k == "rng_mode":
            ops.append({"op": k, "mode": rng.choice(["stream", "min", "max"])})
        elif k == "handler":
            ops.append({"op": k, "scheme": rng.choice([None] + cfg["schemes"]), "cat": cat})
    return {"cfg": {"mode": "policy", "policy": cfg, "seed": rng.getrandbits(32)}, "ops": ops}


def _gen_storage_program(rng, tier):
    n = rng.choice([1, 2, 2, 3, 4])
    # (the first 21 formats keep 55% of the weight; widening the palette must not thin out the runs that reach rare damage)
    schemes = []
    for _ in range(n):
        s_ = rng.choice(C08_PALETTE[:21] if rng.random() < 0.55 else C08_PALETTE[21:])
        if s_ not in schemes:
            schemes.append(s_)
    if "hex_md5" in schemes and "nthash" in schemes:
        schemes.remove("nthash")
    if "bigcrypt" in schemes:
        schemes = ["bigcrypt"]  # (a 13-character bigcrypt string IS a des_crypt string, and its salt+first segment is one too)
    if "cisco_type7" in schemes:
        schemes = ["cisco_type7"]  # (two digits + hex pairs: it would claim many other formats' strings; judged on its own)
    tail = []
    if rng.random() < 0.3:
        tail.append("unix_disabled")
    if rng.random() < 0.3:
        tail.append("plaintext")
    users = [{"scheme": rng.choice(schemes), "pw": rng.choice(PWS), "ident": rng.choice(["2a", "2a", "2b", "2y"])} for _ in range(rng.randint(1, 4))]
    ops = []
    kinds = [k_ for k_ in FAULT_KINDS["C08"][:-1] if k_ != "cold_start"] + ["intact"]  # ("intact": the record exactly as stored, possibly handed over as bytes)
    if tier == "thorough" and rng.random() < 0.5:
        for i in range(len(users)):
            what = rng.choice(["subst", "delete", "truncate", "dup", "insert"])
            if users[i]["scheme"] in ("sun_md5_crypt", "atlassian_pbkdf2_sha1") and what in ("subst", "insert"):
                what = "delete"  # (their cheapest verification costs 5-30 ms: no 12-bytes-per-position sweep for them)
            ops.append({"op": "sweep", "user": i, "what": what, "as_bytes": rng.random() < 0.2})
    for _ in range(rng.randint(8, 40)):
        ops.append({"op": "corrupt", "user": rng.randrange(len(users)), "kind": rng.choice(kinds), "pos": rng.randint(0, 130),
                    "byte": rng.choice(SUBST), "as_bytes": rng.random() < 0.2, "other": rng.randrange(len(users)),
                    "cumulative": rng.random() < 0.15})
        if ops[-1]["kind"] == "truncate" and rng.random() < 0.4:
            # a tail torn off at a field / segment boundary (the cut a length-limited column or a fixed-size record makes)
            ops[-1]["pos"] = 1000 + rng.randint(0, 40)
    cold = rng.random() < 0.3
    return {"cfg": {"mode": "storage", "schemes": schemes, "tail": tail, "users": users, "seed": rng.getrandbits(32), "cold": cold}, "ops": ops}


INVALID_KINDS = ["unknown_scheme", "unknown_option", "forbidden_salt", "default_not_in_schemes", "deprecated_not_in_schemes",
                 "default_deprecated", "all_deprecated", "wrong_value_type", "non_numeric_rounds", "max_below_min", "default_below_min",
                 "four_part_key", "empty_category", "empty_scheme", "empty_option", "duplicate_scheme", "unknown_context_key",
                 "schemes_per_category", "auto_plus_other", "vary_rounds_negative", "vary_rounds_above_one"]


USER_SCHEMES = ("postgres_md5", "oracle10", "cisco_pix")  # need the context keyword user=; the context strips it for the others


def _gen_config_program(rng, tier):
    cfg = gen_policy(rng, stringly=True, truncate=True)
    if rng.random() < 0.3:
        # a scheme that takes a context keyword: calls then carry user=, which the context must keep filtering for the others
        cfg["schemes"].insert(rng.randint(0, len(cfg["schemes"])), rng.choice(USER_SCHEMES))
    if rng.random() < 0.2:
        # a free-text option: the disabled-account marker -- also with '%', which the INI writer must escape and the reader undo
        cfg["schemes"].append("unix_disabled")
        cfg["unix_disabled__marker"] = rng.choice(["!", "*", "!%nologin", "*%LK%", "!100%", "!%%"])
    # settings that are neither costs nor salts: they cross the INI text like everything else and must come back usable
    if "bcrypt_sha256" in cfg["schemes"] and rng.random() < 0.5:
        cfg[rng.choice(["bcrypt_sha256__version", "admin__bcrypt_sha256__version"])] = rng.choice([1, 2])
    if "scrypt" in cfg["schemes"] and rng.random() < 0.5:
        cfg[rng.choice(["scrypt__block_size", "scrypt__parallelism", "staff__scrypt__block_size"])] = rng.choice([1, 2, 4])
    # custom (unregistered) hashers can only wrap real classes, not PrefixWrapper objects
    faulty = rng.random() < 0.45 and not any(w in cfg["schemes"] for w in WRAPPERS)
    ops = []
    for _ in range(rng.randint(3, 9 if tier == "quick" else 14)):
        k = rng.choices(["export_import", "empty_update", "valid_update", "failed_using", "failed_item", "failed_file", "copy", "lazy_first"],
                        [4, 1, 3, 3 if faulty else 0, 4, 2, 1, 1.5])[0]
        if k == "export_import":
            ops.append({"op": k, "form": rng.choice(["dict", "dict_resolved", "string", "file", "from_string", "kwds", "load_ctx", "load_lazy", "update_ctx"])})
        elif k in ("empty_update", "copy"):
            ops.append({"op": k, "how": rng.choice(["update()", "update({})", "load({},update=True)", "copy()"])})
        elif k == "valid_update":
            d = _delta(rng, cfg, truncate=True)
            if d:
                ops.append({"op": k, "delta": d, "how": rng.choice(["update", "load_update", "update_dict"])})
        elif k == "failed_using":
            ops.append({"op": k, "delta": _delta(rng, cfg, truncate=True) or {"deprecated": []}, "how": rng.choice(["update", "load_update", "load_replace"])})
        elif k == "failed_item":
            ops.append({"op": k, "kind": rng.choice(INVALID_KINDS), "delta": _delta(rng, cfg, truncate=True), "how": rng.choice(["update", "load_update", "load_replace", "ini_text"]),
                        "cat": rng.choice(CATS)})
        elif k == "lazy_first":
            ops.append({"op": k, "kind": rng.choice(INVALID_KINDS + ["valid", "valid"]), "delta": _delta(rng, cfg, truncate=True), "cat": rng.choice(CATS),
                        "how": rng.choice(["update", "update", "load_update", "update_dict"]), "onload": rng.random() < 0.4})
        elif k == "failed_file":
            ops.append({"op": k, "fault": rng.choice(["missing", "unreadable", "read_error", "truncated", "wrong_section", "not_utf8"]),
                        "delta": _delta(rng, cfg, truncate=True), "update": rng.random() < 0.5})
    return {"cfg": {"mode": "config", "policy": cfg, "faulty": faulty, "seed": rng.getrandbits(32)}, "ops": ops}


def _gen_lifecycle_program(rng, tier):
    disabled = rng.choice(["unix_disabled", "unix_disabled", "django_disabled"])
    cfg = gen_policy(rng, with_cats=rng.random() < 0.35, disabled=disabled)  # (user categories with their own overrides)
    marker = rng.choice([None, None, "!", "*", "*LK*", "!!", "*NP*"]) if disabled == "unix_disabled" else None
    if marker:
        cfg["unix_disabled__marker"] = marker
    if rng.random() < 0.3:
        # a scheme that claims marker-prefixed text too, listed LAST (listed before another scheme it would own that scheme's
        # records by the attribution rule, before the disabled-account scheme every disabled record: outside the domain)
        cfg["schemes"].append(rng.choice(["plaintext", "plaintext", "ldap_plaintext"]))
    if rng.random() < 0.15:
        # both disabled-account handlers in one context: the FIRST listed one is the context's (it produces and, for the strings
        # both claim, recognises the disabled records); the other one follows somewhere behind it
        other = "django_disabled" if disabled == "unix_disabled" else "unix_disabled"
        pos = cfg["schemes"].index(disabled)
        end = len(cfg["schemes"]) - (1 if cfg["schemes"][-1] in ("plaintext", "ldap_plaintext") else 0)
        cfg["schemes"].insert(rng.randint(pos + 1, max(pos + 1, end)), other)
    real = [s for s in cfg["schemes"] if s not in ("unix_disabled", "django_disabled")]
    users = []
    for i in range(rng.randint(1, 5)):
        shape = rng.choice(["hash", "hash", "hash", "none", "empty", "bare_bang", "bare_star", "bang_hash", "star_hash", "django_style", "maxlen"])
        users.append({"shape": shape, "scheme": rng.choice(real), "pw": rng.choice(PWS)})
    ops = []
    for _ in range(rng.randint(5, 30)):
        k = rng.choices(["disable", "disable_nohash", "enable", "login", "login_empty", "login_self", "login_wrong", "is_enabled",
                         "verify_none", "policy_update", "restart", "needs_update", "add_user_scheme", "neighbour"], [6, 2, 5, 4, 2, 2, 2, 3, 2, 1, 1, 1, 0.6, 0.8])[0]
        op = {"op": k, "user": rng.randrange(len(users))}
        if k in ("disable", "enable") and rng.random() < 0.25:
            op["as_bytes"] = True  # the stored record is handed over as bytes (as read from a file or a database driver)
        if k == "policy_update":
            op["delta"] = _delta(rng, {kk: v for kk, v in cfg.items()} | {"schemes": real})
            if not op["delta"]:
                continue
        if k == "restart":
            op["form"] = rng.choice(["dict", "string"])
        if k == "add_user_scheme":
            op["scheme"] = rng.choice(["postgres_md5", "oracle10", "msdcc", "msdcc2"])
            op["as_default"] = rng.random() < 0.5
        if k == "neighbour":
            op["marker"] = rng.choice(["!", "*", "*LK*", "!!", "*NP*"])
            op["via"] = rng.choice(["context", "context", "using"])
        ops.append(op)
    return {"cfg": {"mode": "lifecycle", "policy": cfg, "disabled": disabled, "users": users, "seed": rng.getrandbits(32)}, "ops": ops}


def simplify_cfg(cfg):
    out = []
    pol = cfg.get("policy")
    if pol:
        for k in sorted(pol):
            if k == "schemes":
                continue
            p = dict(pol)
            del p[k]
            out.append(dict(cfg, policy=p))
    us = cfg.get("users")
    if us and len(us) > 1 and cfg.get("mode") != "storage":
        pass
    return out


def simplify_op(op):
    out = []
    if op.get("op") == "corrupt" and op.get("cumulative"):
        out.append(dict(op, cumulative=False))
    if op.get("as_bytes"):
        out.append(dict(op, as_bytes=False))
    if op.get("cat"):
        out.append(dict(op, cat=None))
    return out


# =============================================================================================
# execution: dispatcher
# =============================================================================================
def execute(program, ctx):
    cfg = program["cfg"]
    mode = cfg["mode"]
    ctx.rng = SimRandom(cfg["seed"], ctx).install()
    if cfg.get("crypt_lacks"):
        from simkit.seams import SimCrypt

        SimCrypt().install().lost.add("")
        ctx.fault("platform_crypt_lacks_format")
    if mode == "policy":
        _PolicyRun(cfg, ctx).run(program["ops"])
    elif mode == "storage":
        _StorageRun(cfg, ctx).run(program["ops"])
    elif mode == "config":
        from simkit.worlds import credstore_config

        credstore_config.ConfigRun(cfg, ctx).run(program["ops"])
    elif mode == "lifecycle":
        from simkit.worlds import credstore_lifecycle

        credstore_lifecycle.LifecycleRun(cfg, ctx).run(program["ops"])


# =============================================================================================
# C04 -- policy mode
# =============================================================================================
class _PolicyRun:
    def __init__(self, cfg, ctx):
        self.ctx = ctx
        self.policy = dict(cfg["policy"])
        self.facts = facts_for(self.policy["schemes"])
        self.skip = False
        self.policy.pop("_may_be_refused", None)
        r = _call(build_context, self.policy)
        if r[0] == "exc":
            if cfg["policy"].get("_may_be_refused") and isinstance(r[2], (ValueError, KeyError)):
                # a category-wide cost limit ('<cat>__all__max_rounds') can contradict one scheme's own minimum: a legitimate refusal
                ctx.probe("generated_config_refused")
                self.skip = True
                return
            # the generator only builds well-formed configurations; a refusal here is a generator bug, not a finding
            raise RuntimeError(f"generated configuration refused: {r[1]}: {r[2]} -- {self.policy}")
        self.cc = r[1]
        self.model = PolicyModel(self.policy, self.facts)
        self._count_beyond(self.policy)
        self.table = {}  # user -> (hash, pw)
        self.seen = set()
        self.kinds = {}

    def _count_beyond(self, policy):
        """reach counter: a configured cost limit lies beyond the format's hard limit (accepted and clamped, with a warning)"""
        for k, v in policy.items():
            parts = k.split("__")
            if parts[-1] in ("min_rounds", "max_rounds", "default_rounds") and parts[-2] in COSTED:
                lo, hi, _ = COSTED[parts[-2]]
                try:
                    if int(v) < lo or int(v) > hi:
                        self.ctx.fault("cost_beyond_hard_limit")
                except (TypeError, ValueError):
                    pass

    def run(self, ops):
        ctx = self.ctx
        if self.skip:
            return
        for op in ops:
            ctx.op()
            k = op["op"]
            self.kinds[k] = self.kinds.get(k, 0) + 1
            getattr(self, "op_" + k)(op)
        self.order_independence()
        shape = sorted((kk.split("__")[-1], type(v).__name__) for kk, v in self.policy.items())
        ctx.key(len(self.policy["schemes"]), shape, sorted(self.kinds), sorted(self.seen))

    # -- helpers -----------------------------------------------------------------------------------
    def judge_fresh(self, h, pw, cat, where):
        """rule 7: a hash the context just made"""
        ctx, m = self.ctx, self.model
        d = m.default(cat)
        ctx.check(isinstance(h, str) and h.isascii(), "C04", "hash-not-ascii-text", repr(h))
        got = m.attribute(h)
        made_by_default = _call(self.facts[d].handler.identify, h) == ("ok", True)
        ctx.check(made_by_default, "C04", "new-hash-not-from-default-scheme",
                  lambda: f"{where}: category {cat!r}: new hash {h!r} is not a {d} hash (default scheme)", scheme=d)
        r = _call(self.cc.identify, h)
        ctx.check(r == ("ok", got), "C04", "attribution-differs",
                  lambda: f"{where}: identify({h!r}) -> {r[:2]}, first configured scheme that claims it: {got} (order {m.schemes})")
        if got != d:
            # the default scheme is shadowed by an earlier one that claims the same strings: by the attribution rule the
            # context reads its own new hash as the earlier scheme's; nothing more can be asked of this configuration
            ctx.probe("default_scheme_shadowed")
            self.seen.add((d, "fresh-shadowed"))
            ctx.nontrivial = True
            return
        c = cost_of(h, d)
        lo, hi = m.window(d, cat)
        f = self.facts[d]
        if d == "bsdi_crypt" and lo is not None and lo == hi and lo % 2 == 0:
            # unsatisfiable by design of the format: bsdi_crypt only generates odd costs and itself flags even ones, and this
            # window holds a single even value (e.g. bsdi_crypt__rounds = 26); nothing can be asked of the new hash's cost
            ctx.probe("bsdi_window_without_odd_cost")
            r = _call(self.cc.verify, pw, h, category=cat)
            ctx.check(r == ("ok", True), "C04", "fresh-hash-does-not-verify", f"{where}: {h!r} / {pw!r} -> {r[:2]}", scheme=d)
            return
        if f.has_rounds and not m.window_empty(d, cat):
            want = m.cost(d, cat)
            if m.varies(d, cat):
                inside = (lo is None or c >= lo) and (hi is None or c <= hi) and f.min <= c <= f.max
                ctx.check(inside, "C04", "varied-cost-outside-window",
                          lambda: f"{where}: {d} category {cat!r}: generated cost {c} outside window [{lo}, {hi}] / hard limits "
                                  f"[{f.min}, {f.max}] (rng mode {ctx.rng.mode})", scheme=d)
            else:
                # bsdi_crypt documents that it only generates odd costs (even ones weaken DES): an even configured cost
                # may come out one higher -- as long as that stays inside the window, which the next checks decide
                same = c == want or (d == "bsdi_crypt" and want % 2 == 0 and abs(c - want) == 1 and (hi is None or c <= hi))
                ctx.check(same, "C04", "new-hash-cost-differs-from-policy",
                          lambda: f"{where}: {d} category {cat!r}: new hash {h!r} has cost {c}, policy says {want} (window [{lo}, {hi}])",
                          scheme=d)
        r = _call(self.cc.needs_update, h, category=cat)
        # (an EMPTY window -- minimum above maximum once every layer is merged -- cannot be satisfied by any hash)
        ctx.check(r == ("ok", False) or (f.has_rounds and m.window_empty(d, cat)), "C04", "fresh-hash-needs-update",
                  lambda: f"{where}: hash {h!r} just made for category {cat!r} -> needs_update {r[:2]}", scheme=d)
        r = _call(self.cc.verify, pw, h, category=cat)
        ctx.check(r == ("ok", True), "C04", "fresh-hash-does-not-verify", f"{where}: {h!r} / {pw!r} -> {r[:2]}", scheme=d)
        self.seen.add((d, "fresh"))
        ctx.nontrivial = True

    # -- ops ------------------------------------------------------------------------------------------
    def alt(self):
        """every fourth operation goes through the context's other spelling of the same entry point (legacy alias, positional
        instead of keyword arguments, resolve=True)"""
        return self.ctx.n_ops % 4 == 3

    def op_register(self, op):
        if self.alt():
            self.ctx.probe("entry_point_alias")
            r = _call(self.cc.encrypt, op["pw"], None, op["cat"])  # legacy alias of hash(); (secret, scheme, category) positionally
        else:
            r = _call(self.cc.hash, op["pw"], category=op["cat"])
        if r[0] == "exc":
            self.ctx.fail("C04", "hash-raises", f"hash({op['pw']!r}, category={op['cat']!r}) raised {r[1]}: {r[2]}", exc=r[1])
        self.ctx.log("register", op["user"], op["cat"], r[1])
        self.judge_fresh(r[1], op["pw"], op["cat"], "register")
        self.table[op["user"]] = (r[1], op["pw"])

    def op_import_legacy(self, op):
        s = op["scheme"]
        if s not in self.model.schemes:
            return
        f = self.facts[s]
        kw = {}
        from simkit.refmodels.known_hashes import KNOWN, PW

        if op.get("known") and s in KNOWN and self.model.attribute(KNOWN[s]) == s:
            # a record written by an earlier process (a constant): nothing of this scheme has been hashed in this process yet
            self.table[op["user"]] = (KNOWN[s], PW)
            self.ctx.fault("cold_record")
            self.op_needs_update({"user": op["user"], "cat": op["cat"]})
            return
        if f.has_rounds:
            lo, hi = self.model.window(s, op["cat"])
            cl, ch, step = COSTED[s]
            w = op["where"]
            cand = {"below": (lo - step) if lo is not None else None, "at-min": lo, "at-max": hi,
                    "above": (hi + step) if hi is not None else None, "hard-min": f.min,
                    "inside": ((lo or cl) + (hi or ch)) // 2}.get(w)
            if cand is None:
                cand = cl + int(op["r"] * (ch - cl))
            # (budget: a category-wide limit taken from another scheme's scale may put this scheme's window far above its cheap range)
            afford = hi if (hi is not None and hi <= 2 * ch + 8) else 0
            cand = max(f.min, min(cand, max(ch, afford) + step, f.max))
            if s == "bsdi_crypt" and cand % 2 == 0:
                cand += 1
            kw["rounds"] = cand
        with warnings.catch_warnings():
            warnings.simplefilter("ignore")
            h = f.handler.using(**kw).hash(op["pw"])
        if s == "bcrypt" and op.get("r", 0) < 0.35:
            # a record written by an old implementation: '$2a$' with stray padding bits in the last salt character (passlib issue 25);
            # it verifies, and the scheme itself flags it for an update
            with warnings.catch_warnings():
                warnings.simplefilter("ignore")
                h = f.handler.using(ident="2a", **kw).hash(op["pw"])
            if len(h) == 60 and h[28] in ".Oeu":
                h = h[:28] + {".": "/", "O": "P", "e": "f", "u": "v"}[h[28]] + h[29:]
                self.ctx.probe("bcrypt_2a_padding_bits")
        self.table[op["user"]] = (h, op["pw"])
        if f.has_rounds:
            lo, hi = self.model.window(s, op["cat"])
            cc = _cost_class(kw["rounds"], lo, hi)
            if cc == "below":
                self.ctx.fault("legacy_below_min")
            if cc == "above":
                self.ctx.fault("legacy_above_max")
        self.op_needs_update({"user": op["user"], "cat": op["cat"]})

    def op_identify(self, op):
        if op["user"] not in self.table:
            return
        h, pw = self.table[op["user"]]
        if self.alt():
            self.ctx.probe("entry_point_alias")
            r = _call(lambda: getattr(self.cc.identify(h.encode("ascii"), resolve=True), "name", None))  # bytes in, handler object out
        else:
            r = _call(self.cc.identify, h)
        want = self.model.attribute(h)
        self.ctx.check(r == ("ok", want), "C04", "attribution-differs",
                       lambda: f"identify({h!r}) -> {r[:2]}, first configured scheme that claims it: {want} (order {self.model.schemes})")
        self.ctx.nontrivial = True

    def op_needs_update(self, op):
        if op["user"] not in self.table:
            return
        h, pw = self.table[op["user"]]
        cat = op["cat"]
        s = self.model.attribute(h)
        if s is None or self.model.window_empty(s, cat):
            return
        want, why = self.model.needs_update(h, cat)
        if self.alt() and self.ctx.n_ops % 8 == 7:
            self.ctx.probe("entry_point_alias")
            r = _call(self.cc.needs_update, h, scheme=s, category=cat)  # the scheme named explicitly (deprecated keyword), with a category
        elif self.alt():
            self.ctx.probe("entry_point_alias")
            r = _call(self.cc.hash_needs_update, h, None, cat)  # legacy alias, (hash, scheme, category) positionally
        elif self.ctx.n_ops % 3 == 1:
            r = _call(self.cc.needs_update, h.encode("utf-8"), category=cat)  # the stored record as bytes
        else:
            r = _call(self.cc.needs_update, h, category=cat)
        self.ctx.log("needs_update", op["user"], cat, r[:2])
        c = cost_of(h, s)
        lo, hi = self.model.window(s, cat)
        self.seen.add((s, _cost_class(c, lo, hi), why))
        self.ctx.check(r == ("ok", want), "C04", "needs-update-differs",
                       lambda: f"needs_update({h!r}, category={cat!r}) -> {r[:2]}; policy: scheme {s} deprecated={self.model.deprecated(s, cat)} "
                               f"cost={c} window=[{lo}, {hi}] -> {want} ({why})", scheme=s, why=why)
        self.ctx.nontrivial = True

    def op_handler(self, op):
        s = op["scheme"]
        if s is not None and s not in self.model.schemes:
            return
        r = _call(self.cc.handler, s, op["cat"])
        want = s or self.model.default(op["cat"])
        self.ctx.check(r[0] == "ok" and r[1].name == want, "C04", "handler-differs", f"handler({s!r}, {op['cat']!r}) -> {r[:2]}, expected {want}")
        r = _call(self.cc.default_scheme, op["cat"])
        self.ctx.check(r == ("ok", self.model.default(op["cat"])), "C04", "default-scheme-differs",
                       f"default_scheme({op['cat']!r}) -> {r[:2]}, expected {self.model.default(op['cat'])}")

    def _login(self, user, pw_right, cat, where):
        ctx, m = self.ctx, self.model
        h, pw = self.table[user]
        s = m.attribute(h)
        if s is None or m.window_empty(s, cat):
            return None
        attempt = pw if pw_right else "wrong-" + pw
        # whether the password is right is the attributed scheme's verdict (a hash made by a scheme that an earlier
        # one shadows is, by the attribution rule, read as the earlier one's)
        vr = _call(self.facts[s].handler.verify, attempt, h)
        pw_right = vr == ("ok", True)
        if self.alt():
            ctx.probe("entry_point_alias")
            # bytes in; (secret, hash, scheme, category) positionally. (a non-ASCII password stays text: bytes secrets are taken as
            # "already encoded", and lmhash / nthash / mssql do not encode text as UTF-8)
            r = _call(self.cc.verify_and_update, attempt.encode("ascii") if attempt.isascii() else attempt, h.encode("ascii"), None, cat)
        else:
            r = _call(self.cc.verify_and_update, attempt, h, category=cat)
        if r[0] == "exc":
            ctx.fail("C04", "verify-and-update-raises", f"verify_and_update({attempt!r}, {h!r}, category={cat!r}) raised {r[1]}: {r[2]}", exc=r[1])
        ok, new = r[1]
        ctx.log("login", user, cat, ok, new)
        if not pw_right:
            ctx.check((ok, new) == (False, None), "C04", "wrong-password-outcome", f"{where}: wrong password -> {(ok, new)}", scheme=s)
            return None
        want, why = m.needs_update(h, cat)
        ctx.check(ok is True, "C04", "right-password-rejected", f"{where}: {h!r} / {pw!r} category {cat!r} -> {(ok, new)}", scheme=s)
        if not want:
            ctx.check(new is None, "C04", "rehash-without-need",
                      lambda: f"{where}: {h!r} (scheme {s}, category {cat!r}) needs no update ({why}) but verify_and_update returned a new hash {new!r}",
                      scheme=s)
        else:
            ctx.check(new is not None, "C04", "no-rehash-although-needed",
                      lambda: f"{where}: {h!r} (scheme {s}, category {cat!r}) needs update ({why}) but verify_and_update returned no new hash", scheme=s, why=why)
            self.judge_fresh(new, pw, cat, where + "/rehash")
            self.table[user] = (new, pw)
        ctx.nontrivial = True
        return new

    def op_login(self, op):
        if op["user"] in self.table:
            self._login(op["user"], True, op["cat"], "login")

    def op_login_wrong(self, op):
        if op["user"] in self.table:
            self._login(op["user"], False, op["cat"], "login")

    def op_fixed_point(self, op):
        if op["user"] not in self.table:
            return
        first = self._login(op["user"], True, op["cat"], "fixed-point#1")
        second = self._login(op["user"], True, op["cat"], "fixed-point#2")
        h = self.table[op["user"]][0]
        s = self.model.attribute(h)
        lo_, hi_ = self.model.window(s, op["cat"]) if s is not None else (None, None)
        unsat = s == "bsdi_crypt" and lo_ is not None and lo_ == hi_ and lo_ % 2 == 0  # (no odd cost in the window: see judge_fresh)
        if s is not None and not self.model.window_empty(s, op["cat"]) and s == self.model.default(op["cat"]) and not unsat:
            self.ctx.check(second is None, "C04", "login-does-not-reach-fixed-point",
                           lambda: f"category {op['cat']!r}: second successful login in a row still rehashed: {first!r} -> {second!r}", scheme=s)

    def op_policy_update(self, op):
        d = op["delta"]
        new = merge_policy(self.policy, d)
        try:
            self.model = PolicyModel(new, facts_for(new["schemes"]))
            for c in (None, "admin", "staff"):
                self.model.default(c)
        except Exception:
            self.model = PolicyModel(self.policy, self.facts)
            return
        r = _call(self.cc.update, **d)
        if r[0] == "exc":
            # the change was refused: nothing is judged here (C10 judges refusals); keep the old policy
            self.model = PolicyModel(self.policy, self.facts)
            self.ctx.probe("policy_update_refused")
            return
        self.policy = new
        self.facts = facts_for(new["schemes"])
        self.ctx.fault("policy_update")

    def op_rng_mode(self, op):
        self.ctx.rng.mode = op["mode"]
        if op["mode"] != "stream":
            self.ctx.fault("rng_" + op["mode"])

    def order_independence(self):
        """answers must not depend on which query filled the lazily built record caches first"""
        ctx = self.ctx
        other = build_context(self.cc.to_dict(resolve=True))
        cats = [None, "admin", "staff", "guest"]
        for user in sorted(self.table, reverse=True):
            h, pw = self.table[user]
            s = self.model.attribute(h)
            if s is None:
                continue
            for cat in reversed(cats):
                a = _call(self.cc.needs_update, h, category=cat)
                b = _call(other.needs_update, h, category=cat)
                ctx.check(a[:2] == b[:2], "C04", "answer-depends-on-call-history",
                          lambda: f"needs_update({h!r}, {cat!r}): used context {a[:2]}, fresh context with the same configuration {b[:2]}")
            a, b = _call(self.cc.identify, h), _call(other.identify, h)
            ctx.check(a[:2] == b[:2], "C04", "answer-depends-on-call-history", f"identify({h!r}): {a[:2]} vs {b[:2]}")


# =============================================================================================
# C08 -- storage mode
# =============================================================================================
def _swap_fields(h):
    parts = h.split("$")
    if len(parts) < 4:
        return h[::-1]
    parts[-1], parts[-2] = parts[-2], parts[-1]
    return "$".join(parts)


def damage(h, kind, pos, byte, other):
    """-> damaged text"""
    n = len(h)
    i = pos % n if n else 0
    if kind == "subst":
        return h[:i] + byte + h[i + 1:]
    if kind == "delete":
        return h[:i] + h[i + 1:]
    if kind == "dup":
        return h[:i] + h[i] + h[i:] if n else h
    if kind == "insert":
        j = pos % (n + 1)
        return h[:j] + byte + h[j:]
    if kind == "truncate":
        if pos >= 1000:
            cuts = sorted({j + 1 for j, ch in enumerate(h) if ch in "$,=|:}"} | {2, 13, n - 1, n - 11, n - 22, n - 32} & set(range(1, n)))
            return h[: cuts[(pos - 1000) % len(cuts)]] if cuts else h
        return h[: pos % (n + 1)]
    if kind == "empty":
        return ""
    if kind in ("other_record", "other_scheme"):
        return other
    if kind == "swap_fields":
        return _swap_fields(h)
    if kind == "nul":
        j = pos % (n + 1)
        return h[:j] + "\x00" + h[j:]
    if kind == "nonascii":
        return h[:i] + "é" + h[i + 1:]
    if kind == "garbage":
        return (byte * 7 + "$x$" + h[::-1])[: max(3, pos % 90)]
    if kind == "respell":
        # a DOCUMENTED second spelling of the same record: still the same hash, must keep answering like it
        if h.startswith("crypt$") and h.count("$") == 2:
            a, b, c_ = h.split("$")
            return f"crypt$${c_}" if b else f"crypt${c_[:2]}${c_}"
        if h.startswith("{") and "}" in h:
            i_ = h.index("}")
            return h[: i_ + 1].swapcase() + h[i_ + 1:]
        if h and all(ch in "0123456789abcdefABCDEF" for ch in h):
            return h.swapcase()
        return h
    if kind == "unicode_case_alias":
        # one or two ASCII letters are replaced by a non-ASCII character whose Unicode upper- / lower- / case-folded form is exactly
        # those letters (ligature ff -> 'ff' / 'FF', long s -> 's' / 'S', KELVIN SIGN -> 'k', dotless i -> 'I', sharp s -> 'SS'):
        # a reader that normalises case with str.upper() / lower() / casefold() or a Unicode-aware IGNORECASE pattern folds it back
        pats = [("ff", "\ufb00"), ("fi", "\ufb01"), ("fl", "\ufb02"), ("ss", "\u00df"), ("st", "\ufb06"), ("s", "\u017f"), ("k", "\u212a"), ("i", "\u0131")]
        hits = [(j, p_, r_) for p_, r_ in pats for j in range(n) if h[j:j + len(p_)].lower() == p_]
        if not hits:
            return h
        j, p_, r_ = hits[(pos * 7 + (ord(byte[0]) if byte else 0)) % len(hits)]
        return h[:j] + r_ + h[j + len(p_):]
    if kind == "binary_form":
        # the record's hexadecimal text replaced by the bytes it spells (what a BINARY column or a driver's "raw" mode hands over);
        # returned as latin-1 text, handed over as bytes
        try:
            if h[:2] in ("0x", "0X"):
                return bytes.fromhex(h[2:]).decode("latin-1")
            return bytes.fromhex(h).decode("latin-1")
        except ValueError:
            return h
    if kind == "numeric_alias":
        # a decimal field is rewritten to a value that a sloppy reader may fold back onto the original: +1, or the original plus a
        # table / word size (53, 64, 256, 2^16, 2^32) -- modular indexing and integer wrap-around are the classic aliasing mistakes
        import re

        runs = [(m.start(), m.end()) for m in re.finditer(r"[0-9]+", h)]
        if len(h) >= 2 and h[:2].isdigit():
            runs.append((0, 2))  # a fixed-width two-digit head field (e.g. Cisco type 7's salt)
        # an EMPTY field between two '$' is a numeric field too where a format writes its default that way: it gets a number
        runs += [(i_ + 1, i_ + 1) for i_ in range(len(h) - 1) if h[i_:i_ + 2] == "$$"]
        if not runs:
            return h
        a, b = runs[pos % len(runs)]
        if a == b:
            return h[:a] + ["0", "1", "00", "190"][(ord(byte[0]) if byte else 0) % 4] + h[b:]
        v = int(h[a:b])
        m_ = [1, 53, 64, 256, 65536, 2 ** 32][(ord(byte[0]) if byte else 0) % 6]
        new = str(v + m_).rjust(b - a, "0")
        return h[:a] + new + h[b:]
    return h


def _int_respellings(d):
    """the string with every non-ASCII decimal digit written in ASCII and blanks next to a digit (a) dropped, (b) read as '0'"""
    import unicodedata

    t = "".join(str(unicodedata.decimal(ch)) if (not ch.isascii() and ch.isdecimal()) else ch for ch in d)

    def near_digit(i_):
        return (i_ > 0 and t[i_ - 1].isdigit()) or (i_ + 1 < len(t) and t[i_ + 1].isdigit())

    def pad(i_, ch):
        # blanks around a number, and a sign in front of it ("-0" is 0)
        return (ch.isspace() and near_digit(i_)) or (ch in "+-" and i_ + 1 < len(t) and t[i_ + 1].isdigit() and (i_ == 0 or t[i_ - 1] in "$=,|{ "))

    a = "".join(ch for i_, ch in enumerate(t) if not pad(i_, ch))
    b = "".join("0" if pad(i_, ch) else ch for i_, ch in enumerate(t))
    return [t, a, b]


class _StorageRun:
    def __init__(self, cfg, ctx):
        import passlib.hash

        self.ctx = ctx
        self.cfg = cfg
        schemes = cfg["schemes"] + cfg["tail"]
        kw = {"schemes": schemes}
        for s in schemes:
            if MIN_COST.get(s) is not None:
                kw[f"{s}__default_rounds"] = MIN_COST[s]
        self.cc = build_context(kw)
        self.handlers = {s: getattr(passlib.hash, s) for s in schemes}
        self.records = []
        from simkit.refmodels.known_hashes import KNOWN, PW

        for u in cfg["users"]:
            H = self.handlers[u["scheme"]]
            c = MIN_COST.get(u["scheme"])
            if cfg.get("cold") and u["scheme"] in KNOWN:
                # cold start (a restarted worker): the record was written by an earlier process; the first thing THIS process does with
                # the scheme is to check a stored hash -- nothing has been hashed, no backend chosen, no lazy import resolved yet
                u = dict(u, pw=PW)
                h = KNOWN[u["scheme"]]
                ctx.fault("cold_start")
                self.records.append({"scheme": u["scheme"], "pw": u["pw"], "hash": h, "cur": h, "ex": self.extract(u["scheme"], h)})
                if self.records[-1]["ex"] is None:
                    raise RuntimeError(f"extractor cannot read the constant {u['scheme']} hash {h!r}")
                continue
            kw_ = {"rounds": c} if c is not None else {}
            if u["scheme"] == "cisco_type7" and u.get("ident") in ("2a", "2y"):
                kw_["salt"] = 0  # (offset 0 into the key: the one a wrapped-around offset would alias)
            if u["scheme"] == "dlitz_pbkdf2_sha1" and u.get("ident") == "2a":
                kw_["rounds"] = 400  # (the format's default cost, which it writes as an EMPTY rounds field)
            if u["scheme"] in ("bcrypt", "ldap_bcrypt", "django_bcrypt") and u.get("ident"):
                kw_["ident"] = u["ident"]  # (records written by older installations carry the older variant identifiers)
            with warnings.catch_warnings():
                warnings.simplefilter("ignore")
                h = H.using(**kw_).hash(u["pw"])
            ex = self.extract(u["scheme"], h)
            if ex is None:
                raise RuntimeError(f"extractor cannot read a fresh {u['scheme']} hash {h!r}")  # harness error, not a finding
            self.records.append({"scheme": u["scheme"], "pw": u["pw"], "hash": h, "cur": h, "ex": ex})
        self.seen = set()

    def extract(self, scheme, s):
        if scheme in HEXLEN:
            return extract_hex(s, HEXLEN[scheme])
        return extract(s, only=(scheme,))

    def run(self, ops):
        ctx = self.ctx
        for op in ops:
            ctx.op()
            if op["user"] >= len(self.records):
                continue
            rec = self.records[op["user"]]
            if op["op"] == "corrupt":
                base = rec["cur"] if op.get("cumulative") else rec["hash"]
                oth = None
                if op["kind"] in ("other_record", "other_scheme"):
                    # a neighbour's record -- of a DIFFERENT password, otherwise verifying it would be right
                    # (mssql2000 is case-insensitive by design: passwords that differ in case only are the same password there)
                    cand = [r for r in self.records if r["pw"].upper() != rec["pw"].upper() and (op["kind"] == "other_record" or r["scheme"] != rec["scheme"])]
                    if not cand:
                        continue
                    oth = cand[op["pos"] % len(cand)]["hash"]
                d = damage(base, op["kind"], op["pos"], op["byte"], oth)
                rec["cur"] = d
                ctx.fault(op["kind"]) if op["kind"] != "intact" else ctx.probe("intact_record_judged")
                self.judge(rec, d, op["kind"], op.get("as_bytes"))
            elif op["op"] == "sweep":
                h = rec["hash"]
                what = op["what"]
                for i in range(len(h) + 1):
                    if what in ("delete", "dup") and i < len(h):
                        self.judge(rec, damage(h, what, i, "", ""), what, op.get("as_bytes"))
                    elif what == "truncate":
                        self.judge(rec, h[:i], what, op.get("as_bytes"))
                    elif what in ("subst", "insert"):
                        if what == "subst" and i >= len(h):
                            continue
                        for b in SUBST:
                            self.judge(rec, damage(h, what, i, b, ""), what, op.get("as_bytes"))
                ctx.fault(what)
        ctx.key(sorted(self.seen))

    CAPS = {"sha256_crypt": 30000, "sha512_crypt": 30000, "pbkdf2_sha1": 30000, "pbkdf2_sha256": 30000, "pbkdf2_sha512": 30000,
            "sha1_crypt": 30000, "bsdi_crypt": 30000, "django_pbkdf2_sha256": 30000, "bcrypt": 8, "bcrypt_sha256": 8, "phpass": 14}

    _SNIFF = None

    def too_expensive(self, d):
        """a damaged cost field can ask for hours of work: such records are not pushed through verify (counted, not
        judged). Sniffed leniently, on whatever is left of the string, without relying on it being well-formed."""
        import re

        if _StorageRun._SNIFF is None:
            _StorageRun._SNIFF = [
                (re.compile(r"^\$[PH]\$(.)"), "h64", 14),
                (re.compile(r"^\$2[abxy]?\$\s*\+?([0-9_]+)"), "int", 8),
                (re.compile(r"^\$bcrypt-sha256\$.*?r=\s*\+?([0-9_]+)"), "int", 8),
                (re.compile(r"^\$bcrypt-sha256\$[^,$]*,\s*\+?([0-9_]+)"), "int", 8),
                (re.compile(r"rounds=\s*\+?([0-9_]+)"), "int", 30000),
                (re.compile(r"^\$(?:pbkdf2[-a-z0-9]*|sha1)\$\s*\+?([0-9_]+)"), "int", 30000),
                (re.compile(r"^pbkdf2_sha256\$\s*\+?([0-9_]+)"), "int", 30000),
                (re.compile(r"ln=\s*\+?([0-9_]+)"), "int", 9),
                (re.compile(r"^\$scrypt\$.*?r=\s*\+?([0-9_]+)"), "int", 32),
                (re.compile(r"^\$scrypt\$.*?p=\s*\+?([0-9_]+)"), "int", 8),
                (re.compile(r"^_(....)"), "h64le", 30000),
                (re.compile(r"^\{[Cc][Rr][Yy][Pp][Tt]\}_(....)"), "h64le", 30000),
                (re.compile(r"^\{[Cc][Rr][Yy][Pp][Tt]\}\$2[abxy]?\$\s*\+?([0-9_]+)"), "int", 8),
                (re.compile(r"^bcrypt\$\$2[abxy]?\$\s*\+?([0-9_]+)"), "int", 8),
                (re.compile(r"^\{[Cc][Rr][Yy][Pp][Tt]\}\$sha1\$\s*\+?([0-9_]+)"), "int", 30000),
                (re.compile(r"^\{FSHP[^|]*\|[^|]*\|\s*\+?([0-9_]+)"), "int", 30000),
                (re.compile(r"^pbkdf2_sha1\$\s*\+?([0-9_]+)"), "int", 30000),
                (re.compile(r"^grub\.pbkdf2\.sha512\.\s*\+?([0-9_]+)"), "int", 30000),
                (re.compile(r"^\$scram\$\s*\+?([0-9_]+)"), "int", 10000),
                (re.compile(r"^\$p5k2\$([0-9a-fA-F]+)\$"), "hex", 30000),
            ]
        from simkit.refmodels.extract import H64

        for rx, how, cap in _StorageRun._SNIFF:
            m = rx.search(d)
            if not m:
                continue
            g = m.group(1)
            try:
                if how == "int":
                    v = int(g.strip("_") or "0")
                elif how == "hex":
                    v = int(g, 16)
                elif how == "h64":
                    v = H64.index(g)
                else:
                    v = sum(H64.index(ch) << (6 * i) for i, ch in enumerate(g))
            except ValueError:
                continue
            if v > cap:
                return True
        return False

    def judge(self, rec, d, kind, as_bytes):
        ctx = self.ctx
        if self.too_expensive(d):
            ctx.probe("damaged_cost_too_expensive_skipped")
            return
        S = rec["scheme"]
        H = self.handlers[S]
        pw = rec["pw"]
        arg = d
        if kind == "binary_form" and d != rec["hash"] and all(ord(ch) < 256 for ch in d):
            arg = d.encode("latin-1")
        elif as_bytes:
            arg = d.encode("utf-8")
            ctx.fault("as_bytes")
        attrs = {"scheme": S, "fault": kind}
        changed = d != rec["hash"]
        # (1) identification answers True or False without raising
        for name, fn in (("handler", H.identify), ("context", self.cc.identify)):
            r = _call(fn, arg)
            ok = r[0] == "ok" and (isinstance(r[1], bool) if name == "handler" else (r[1] is None or isinstance(r[1], str)))
            ctx.check(ok, "C08", "identify-raises", lambda: f"{name}.identify({arg!r}) -> {r[:2]}", via=name, **attrs)
        # (2) verification and update checks answer, or raise the documented value/type error
        outcomes = {}
        # (the deprecated genhash(secret, config) first: it parses the same string and must leave nothing behind for the calls after it)
        for name, fn, a in (("handler.genhash", H.genhash, (pw, arg)),
                            ("handler.verify", H.verify, (pw, arg)), ("context.verify", self.cc.verify, (pw, arg)),
                            ("handler.needs_update", H.needs_update, (arg,)), ("context.needs_update", self.cc.needs_update, (arg,)),
                            ("context.verify_and_update", self.cc.verify_and_update, (pw, arg))):
            r = _call(fn, *a)
            if r[0] == "exc":
                ctx.check(isinstance(r[2], (ValueError, TypeError)), "C08", "internal-error-escapes",
                          lambda: f"{name}{a!r} raised {r[1]}: {r[2]}", exc=r[1], func=repo_func(r[2]))
                # the record as stored (text, or the same characters as bytes) is not damaged at all: every entry point answers
                ctx.check(changed, "C08", "intact-record-raises",
                          lambda: f"{name}{a!r} on the undamaged record ({'bytes' if as_bytes else 'text'}) raised {r[1]}: {r[2]}", exc=r[1], entry=name, **attrs)
                outcomes[name] = "refused"
            else:
                outcomes[name] = r[1]
        # (3) an altered digest or setting never verifies
        for name in ("handler.verify", "context.verify", "context.verify_and_update"):
            v = outcomes[name]
            verified = v is True or (isinstance(v, tuple) and v[0] is True)
            if verified and changed:
                via = S if name.startswith("handler") else (self.cc.identify(arg) or "?")
                if via != S:
                    if S == "mssql2000" and via == "mssql2005":
                        # by design of the two formats the first 54 characters of an MS-SQL 2000 record ARE the MS-SQL 2005 hash of the
                        # same password with the same salt (the 2000 format carries that digest "for forward compatibility")
                        e5 = extract(d, only=("mssql2005",))
                        try:
                            raw = bytes.fromhex(rec["hash"][2:])
                        except ValueError:
                            raw = b""
                        if e5 is not None and e5[2] == raw[2:6] and e5[3] == raw[6:26]:
                            ctx.probe("mssql2000_prefix_is_mssql2005_hash")
                            continue
                    # attributed to another scheme of the context: only plaintext could legitimately do that (hash == password)
                    ctx.check(via == "plaintext" and d == pw, "C08", "damaged-record-verifies-under-other-scheme",
                              lambda: f"{d!r} (damaged {S} record of {pw!r}) verified through {via}", **attrs)
                    continue
                ex = self.extract(S, d)
                if S == "scram":
                    # (an algorithm listed twice: the later entry is the one the record means -- a mislabelled pair that a genuine
                    #  later pair of the same name overrides is a knocked-out pair like any other, see below)
                    from simkit.refmodels.extract import scram_full

                    full0 = scram_full(rec["hash"])
                    fd = scram_full(d)
                    if full0 is not None and fd is not None and fd[:2] == full0[:2]:
                        last = {}
                        for part in d.split("$")[4].split(","):
                            last[part.partition("=")[0]] = part
                        orig = set(rec["hash"].split("$")[4].split(","))
                        if last and all(v in orig for v in last.values()):
                            ctx.probe("scram_duplicate_algorithm_last_wins")
                            continue
                if S == "scram" and ex is not None and ex != rec["ex"]:
                    # a scram record lists several digests of the same password and the default verify() uses the first usable one
                    # (documented): damage that only knocks out ANOTHER pair leaves an intact, genuine digest doing the verifying
                    from simkit.refmodels.extract import scram_full

                    full0 = scram_full(rec["hash"])
                    if full0 is not None and ex[1] == rec["ex"][1] and ex[2] == rec["ex"][2] and ex[3] in full0[2]:
                        ctx.probe("scram_other_intact_digest_used")
                        continue

                if not (ex is not None and ex == rec["ex"]):
                    # root-cause attribution (for the signature): does the string become the original once every decimal field is
                    # re-spelled the way Python's int() reads it (blanks of any kind around it, non-ASCII decimal digits)?
                    cause = "other"
                    for nd in _int_respellings(d):
                        if nd != d and self.extract(S, nd) == rec["ex"]:
                            cause = "decimal-field-read-with-int-leniency"
                            break
                    ctx.fail("C08", "altered-hash-verifies",
                             f"{name}: original {rec['hash']!r} damaged ({kind}) to {d!r} still verifies {pw!r}; "
                             f"decoded original {rec['ex']} damaged {ex}", cause=cause, **attrs)
                ctx.probe("respelling_accepted")
            elif not changed and name == "handler.verify":
                ctx.check(verified, "C08", "intact-record-rejected", f"{d!r} / {pw!r} -> {v!r}", **attrs)
        if S == "scram":
            # the format's thorough entry point: verify(full=True) compares EVERY digest the record lists
            from simkit.refmodels.extract import scram_full

            r = _call(H.verify, pw, arg, full=True)
            if r[0] == "exc":
                ctx.check(isinstance(r[2], (ValueError, TypeError)), "C08", "internal-error-escapes",
                          lambda: f"scram.verify(full=True) on {d!r} raised {r[1]}: {r[2]}", exc=r[1], func=repo_func(r[2]))
            elif r[1] is True and changed:
                fd, f0 = scram_full(d), scram_full(rec["hash"])
                # (a record that lists a subset of the original's digests, same rounds and salt, IS a genuine scram hash of the password)
                ctx.check(fd is not None and fd[:2] == f0[:2] and fd[2] and set(fd[2]) <= set(f0[2]), "C08", "altered-hash-verifies",
                          lambda: f"scram.verify(full=True): original {rec['hash']!r} damaged ({kind}) to {d!r} still verifies {pw!r}", **attrs)
            ctx.probe("scram_full_verify")
        ctx.log("judge", d, sorted((k, str(v)) for k, v in outcomes.items()))
        pc = "head" if d[:4] != rec["hash"][:4] else "tail" if d[-4:] != rec["hash"][-4:] else "middle"
        self.seen.add((S, kind, pc, str(outcomes["handler.verify"])))
        ctx.nontrivial = True
        ctx.extra["damaged_strings"] = ctx.extra.get("damaged_strings", 0) + 1


def prepare(prop, tier):
    import passlib.context  # noqa: F401
    import passlib.hash

    for s in sorted(set(list(COSTED) + FIXED + C08_PALETTE + ["unix_disabled", "django_disabled", "plaintext"])):
        getattr(passlib.hash, s)


def evaluations(total):
    if total["extra"].get("attempted_changes"):
        return ("attempted configuration changes (failed, valid, export/import)", total["extra"]["attempted_changes"])
    if total["extra"].get("damaged_strings"):
        return ("damaged stored records judged", total["extra"]["damaged_strings"])
    return ("runs", total["runs"])
