"""credstore world, mode "config" -- property C10 (level: fault_enumeration).

The context's policy lives in three durable forms (dict, INI text in a file, the live object). An
admin changes it, the application restarts from an exported form. For every generated
(configuration, change) the whole fault-position space of a FAILED change is visited:
  * the k-th using() customisation call raising, k = 1..N (N learned by a counting dry run), x 5 exception types
  * every kind of invalid item x every insertion position in the change's item order
  * the policy file missing / unreadable / failing after each 64-byte block / truncated at every line boundary
    and inside the section header / wrong section / not UTF-8
and after each attempt the context must answer exactly as before.
"""

from __future__ import annotations

import errno
import warnings

from simkit.refmodels.known_hashes import MIN_COST
from simkit.seams import SimFS
from simkit.refmodels.policy import merge as merge_policy
from simkit.worlds.credstore import CATS, COSTED, INVALID_KINDS, _call, build_context

PATH = "/sim/etc/passlib.ini"
EXC_TYPES = ["ValueError", "TypeError", "KeyError", "RuntimeError", "MemoryError"]


def make_faulty(base, state):
    """a subclass of a real handler (same name) whose using() counts calls and raises on the armed one"""

    class Faulty(base):
        @classmethod
        def using(cls, **kwds):
            state["calls"] += 1
            if state["arm"] and state["calls"] == state["arm"]:
                state["fired"] += 1
                raise state["exc"]("injected failure in using()")
            return super().using(**kwds)

    Faulty.__name__ = base.__name__
    Faulty.__qualname__ = base.__qualname__
    return Faulty


def render_ini(d, section="passlib"):
    """independent rendering of a flat configuration as INI text"""
    lines = [f"[{section}]"]
    for k, v in d.items():
        if isinstance(v, (list, tuple)):
            v = ", ".join(getattr(x, "name", x) for x in v)
        lines.append(f"{k} = {str(v).replace('%', '%%')}")
    return "\n".join(lines) + "\n"


class ConfigRun:
    def __init__(self, cfg, ctx):
        import passlib.context as pc
        import passlib.hash

        self.ctx = ctx
        self.pc = pc
        self.ph = passlib.hash
        self.faulty = cfg["faulty"]
        self.state = {"calls": 0, "arm": 0, "exc": ValueError, "fired": 0}
        self.fs = SimFS(1.0, ctx=None)
        pc.open = self.fs.open
        policy = dict(cfg["policy"])
        self.names = list(policy["schemes"])
        self.objs = {}
        if self.faulty:
            for s in self.names:
                self.objs[s] = make_faulty(getattr(passlib.hash, s), self.state)
            policy["schemes"] = [self.objs[s] for s in self.names]
        from simkit.worlds.credstore import USER_SCHEMES

        self.user_schemes = USER_SCHEMES
        self.ckw = {"user": "probe-user"} if any(s in USER_SCHEMES for s in self.names) else {}
        self.cur = policy  # the configuration in force, as constructor keywords
        r = _call(build_context, policy)
        if r[0] == "exc":
            raise RuntimeError(f"generated configuration refused: {r[1]}: {r[2]} -- {cfg['policy']}")
        self.cc = r[1]
        self.attempts = 0
        self.kinds = set()
        self._make_probes()

    # -- probes + observation ---------------------------------------------------------------------------
    def _make_probes(self):
        """one hash per scheme at a low / middle / high cost, one foreign string; made by the unconfigured handlers"""
        self.probes = []
        mode, self.ctx.rng.mode = self.ctx.rng.mode, "pinned"
        with warnings.catch_warnings():
            warnings.simplefilter("ignore")
            for s in self.names:
                H = getattr(self.ph, s)
                if s in COSTED:
                    lo, hi, step = COSTED[s]
                    for c in (lo, (lo + hi) // 2 // step * step + (lo % step), hi):
                        c = max(lo, min(c, hi))
                        if s == "bsdi_crypt" and c % 2 == 0:
                            c += 1
                        self.probes.append((s, H.using(rounds=c).hash("probe-pw")))
                else:
                    self.probes.append((s, H.hash("probe-pw", **(self.ckw if s in self.user_schemes else {}))))
        self.ctx.rng.mode = mode
        self.probes.append((None, "$unknown$format$string"))

    def cheap(self, cc):
        r = {}
        d = _call(cc.to_dict)
        if d[0] == "ok":
            dd = dict(d[1])
            dd["schemes"] = [getattr(x, "name", x) for x in dd.get("schemes", [])]
            # type-exact for the options whose type the context knows (costs, vary_rounds, salt_size, truncate_error, default,
            # deprecated, schemes); a handler-specific option (fshp's variant ...) read from INI text stays text -- the context
            # cannot know its type and hands it to using(), which reads both spellings: compared by its text
            typed = ("min_rounds", "max_rounds", "default_rounds", "rounds", "vary_rounds", "salt_size", "truncate_error", "default", "deprecated", "schemes")
            r["to_dict"] = sorted((k, repr(v) if k.split("__")[-1] in typed else str(v)) for k, v in dd.items())
        else:
            r["to_dict"] = d[:2]
        r["to_string"] = _call(cc.to_string)[:2]
        r["schemes"] = _call(cc.schemes)[:2]
        r["defaults"] = [_call(cc.default_scheme, c)[:2] for c in (None, "admin", "staff", "guest")]
        r["context_kwds"] = sorted(cc.context_kwds)
        return r

    def full(self, cc):
        r = self.cheap(cc)
        cats = (None, "admin", "staff", "guest")
        dec = []
        for s, h in self.probes:
            row = [_call(cc.identify, h)[:2]]
            for c in cats:
                row.append(_call(cc.needs_update, h, category=c)[:2])
            row.append(_call(cc.verify, "probe-pw", h, **self.ckw)[:2])
            row.append(_call(cc.verify, "wrong-probe", h, **self.ckw)[:2])
            dec.append(row)
        r["decisions"] = dec
        mode, self.ctx.rng.mode = self.ctx.rng.mode, "pinned"
        r["hash"] = [_call(cc.hash, "probe-pw", category=c, **self.ckw)[:2] for c in cats]
        # what EVERY configured scheme would produce now (settings that never show in the export, e.g. a variant stored on a
        # shared class, show here); only for schemes whose configured cost is affordable
        per = []
        for s_ in self.names:
            rec = _call(lambda: cc.handler(s_))
            if rec[0] != "ok":
                per.append((s_, rec[:2]))
                continue
            d_ = getattr(rec[1], "default_rounds", None)
            cap = {"bcrypt": 8, "bcrypt_sha256": 8, "django_bcrypt": 8, "ldap_bcrypt": 8, "scrypt": 6, "phpass": 12}.get(s_, 20000)
            if isinstance(d_, int) and d_ > cap:
                per.append((s_, "too-expensive"))
                continue
            per.append((s_, _call(lambda: cc.handler(s_).hash("probe-pw", **(self.ckw if s_ in self.user_schemes else {})))[:2]))
        r["hash_per_scheme"] = per
        self.ctx.rng.mode = mode
        r["handlers"] = [_call(lambda c=c: cc.handler(None, c).name)[:2] for c in cats]
        return r

    def resolved_identity(self, cc):
        d = cc.to_dict(resolve=True)
        return [id(x) for x in d.get("schemes", [])]

    def same(self, before, after, what, **attrs):
        if before == after:
            self.ctx.n_checks += 1
            return
        diff = [k for k in before if before.get(k) != after.get(k)]
        k0 = diff[0] if diff else "?"
        self.ctx.fail("C10", "context-changed-by-failed-change" if attrs.pop("failed", True) else "export-import-differs",
                      f"{what}: observable {diff} differ; e.g. {k0}: before={str(before.get(k0))[:400]} after={str(after.get(k0))[:400]}",
                      observable=k0, **attrs)

    # -- performing a change --------------------------------------------------------------------------------
    def apply(self, cc, change, how):
        """perform a change the way an admin would; returns the _call outcome"""
        if how == "update":
            return _call(cc.update, **change)
        if how == "update_dict":
            return _call(cc.update, change)
        if how == "load_update":
            return _call(cc.load, change, update=True)
        if how == "load_replace":
            return _call(cc.load, merge_policy(self.cur, change))
        if how == "ini_text":
            return _call(cc.load, render_ini(change), update=True)
        raise AssertionError(how)

    def merged(self, change):
        # (a new value replaces whatever spelling of the same slot the configuration held: 'vary_rounds' / 'all__vary_rounds')
        return merge_policy(self.cur, change)

    def attempt(self):
        self.ctx.log("attempt", self.attempts, self.cheap(self.cc)["to_string"])
        self.attempts += 1
        self.ctx.extra["attempted_changes"] = self.attempts

    # -- ops ------------------------------------------------------------------------------------------------------
    def run(self, ops):
        ctx = self.ctx
        self.baseline = self.full(self.cc)
        for op in ops:
            ctx.op()
            getattr(self, "op_" + op["op"])(op)
        ctx.key(sorted(self.kinds), len([k for k in self.cur if k.count("__") == 2]), self.faulty, len(self.names))

    def op_export_import(self, op):
        ctx = self.ctx
        form = op["form"]
        cc = self.cc
        from passlib.context import CryptContext

        before = self.full(cc)
        if form in ("string", "file", "from_string", "dict") and self.faulty:
            form = "dict_resolved"  # INI text and the plain dict NAME hashers; unregistered custom hashers cannot be named
        self.attempt()
        if form == "dict":
            r = _call(lambda: CryptContext(**cc.to_dict()))
            ctx.fault("restart_via_dict")
        elif form == "dict_resolved":
            r = _call(lambda: CryptContext(**cc.to_dict(resolve=True)))
            ctx.fault("restart_via_dict")
        elif form == "string":
            r = _call(lambda: CryptContext.from_string(cc.to_string()))
            ctx.fault("restart_via_ini")
        elif form == "from_string":
            r = _call(lambda: CryptContext.from_string(cc.to_string(section="custom-section"), section="custom-section"))
            ctx.fault("restart_via_ini")
        elif form == "file":
            self.fs.put(PATH, cc.to_string().encode("utf-8"))
            r = _call(lambda: CryptContext.from_path(PATH))
            ctx.fault("restart_via_file")
        elif form in ("load_ctx", "load_lazy", "update_ctx"):
            # a context object as the source of load() / update(): a plain one, or a LazyCryptContext nobody has used yet
            from passlib.context import LazyCryptContext

            def via_object():
                src = cc if form != "load_lazy" else LazyCryptContext(**cc.to_dict(resolve=True))
                tgt = CryptContext()
                if form == "update_ctx":
                    tgt.update(src)
                else:
                    tgt.load(src)
                return tgt

            r = _call(via_object)
            ctx.fault("restart_via_object")
        else:
            r = _call(cc.copy)
        if r[0] == "exc":
            ctx.fail("C10", "export-import-raises", f"restart through {form} raised {r[1]}: {r[2]}", form=form, exc=r[1])
        new = r[1]
        after = self.full(new)
        self.same(before, after, f"restart through {form}", failed=False, form=form)
        # a second export of the imported context is a fixed point
        ctx.check(_call(new.to_string)[:2] == _call(cc.to_string)[:2], "C10", "export-not-a-fixed-point", f"form {form}", form=form)
        self.cc = new
        self.kinds.add("rt:" + form)
        ctx.nontrivial = True

    def op_empty_update(self, op):
        ctx = self.ctx
        before = self.full(self.cc)
        how = op["how"]
        self.attempt()
        if how == "update()":
            r = _call(self.cc.update)
        elif how == "update({})":
            r = _call(self.cc.update, {})
        elif how == "load({},update=True)":
            r = _call(self.cc.load, {}, update=True)
        else:
            r = _call(self.cc.copy)
            if r[0] == "ok":
                self.same(before, self.full(r[1]), "copy()", failed=False, form="copy")
        if r[0] == "exc":
            ctx.fail("C10", "empty-change-raises", f"{how} raised {r[1]}: {r[2]}", how=how)
        self.same(before, self.full(self.cc), how, failed=False, form="empty-update")
        self.kinds.add("empty")
        ctx.nontrivial = True

    op_copy = op_empty_update

    def op_valid_update(self, op):
        ctx = self.ctx
        change = dict(op["delta"])
        before = self.full(self.cc)
        exp = _call(build_context, self.merged(change))
        self.attempt()
        r = self.apply(self.cc, change, op["how"])
        if r[0] == "exc":
            # refused: then nothing may have changed
            self.same(before, self.full(self.cc), f"refused change {change} ({r[1]})", how=op["how"])
            ctx.check(exp[0] == "exc", "C10", "update-refused-but-rebuild-accepts",
                      lambda: f"update({change}) raised {r[1]}: {r[2]}, but a context built from the merged dictionary is accepted", how=op["how"])
            self.kinds.add("refused-valid")
            return
        ctx.check(exp[0] == "ok", "C10", "update-accepted-but-rebuild-refuses",
                  lambda: f"update({change}) succeeded but CryptContext(**merged) raised {exp[1]}: {exp[2]}", how=op["how"])
        self.cur = self.merged(change)
        after = self.full(self.cc)
        want = self.full(exp[1])
        if after != want:
            diff = [k for k in want if want.get(k) != after.get(k)]
            ctx.fail("C10", "update-differs-from-rebuild",
                     f"after {op['how']}({change}) observables {diff} differ from a context built from the merged dictionary: "
                     f"{str(after.get(diff[0]))[:300]} vs {str(want.get(diff[0]))[:300]}", how=op["how"], observable=diff[0])
        ctx.n_checks += 1
        self.kinds.add("valid-update")
        ctx.nontrivial = True

    def op_lazy_first(self, op):
        """the same change (valid or offending) as the VERY FIRST access to a LazyCryptContext nobody has used yet (built from
        keywords or from an onload callback) and to an ordinary context of the same configuration: same answer, same state after"""
        ctx = self.ctx
        base = list((op.get("delta") or {}).items())
        if op["kind"] != "valid":
            bad = self.invalid_item(op["kind"], op["cat"])
            bads = [bad] if bad else self.invalid_pairs(op["kind"])
            if not bads:
                return
            base = base + bads
        change = dict(base)
        if not change:
            return
        how = op["how"]
        if how == "update" and any(not k.replace("_", "a").isidentifier() for k in change):
            how = "load_update"
        kw = dict(self.cur)
        if op.get("onload"):
            lazy = self.pc.LazyCryptContext(onload=lambda **k: dict(kw))
        else:
            lazy = self.pc.LazyCryptContext(**kw)
        twin = self.pc.CryptContext(**kw)
        ctx.fault("change_is_first_use_of_lazy_context")
        self.attempt()
        want = self.apply(twin, change, how)
        got = self.apply(lazy, change, how)
        ctx.check(got[0] == want[0] and (got[0] == "ok" or got[1] == want[1]), "C10", "lazy-context-answers-differently",
                  lambda: f"{how}({ {k: getattr(v, 'name', v) if not isinstance(v, list) else [getattr(x, 'name', x) for x in v] for k, v in change.items()} }) "
                          f"as first access to a LazyCryptContext({'onload' if op.get('onload') else 'keywords'}) -> {got[:2]}; an ordinary context -> {want[:2]}",
                  kind=op["kind"])
        a, b = self.cheap(lazy), self.cheap(twin)
        self.same(b, a, f"after {how}(...) [{want[0]}] as first access: lazy context vs ordinary context", failed=want[0] == "exc", fault="lazy-first", kind=op["kind"])
        self.kinds.add("lazy-first:" + ("valid" if op["kind"] == "valid" else "invalid"))
        ctx.nontrivial = True

    def op_failed_using(self, op):
        """k-th customisation call raises, for every k and five exception types"""
        ctx = self.ctx
        if not self.faulty:
            return
        change = dict(op["delta"])
        how = op["how"]
        # counting dry run on a copy learns N
        st = self.state
        scratch = self.cc.copy()
        st.update(calls=0, arm=0, fired=0)
        r = self.apply(scratch, change, how)
        n = st["calls"]
        if r[0] == "exc" or n == 0:
            return  # not a change that rebuilds anything; other ops cover refusals
        before_full = self.full(self.cc)
        before = self.cheap(self.cc)
        ident = self.resolved_identity(self.cc)
        for en in EXC_TYPES:
            exc = {"ValueError": ValueError, "TypeError": TypeError, "KeyError": KeyError, "RuntimeError": RuntimeError,
                   "MemoryError": MemoryError}[en]
            for k in range(1, n + 1):
                st.update(calls=0, arm=k, fired=0, exc=exc)
                self.attempt()
                r = self.apply(self.cc, change, how)
                st["arm"] = 0
                ctx.fault("using_raises")
                ctx.check(r[0] == "exc" and st["fired"] == 1, "C10", "injected-failure-swallowed",
                          lambda: f"{how}({change}) with using() call {k}/{n} raising {en}: outcome {r[:2]}", exc=en)
                self.same(before, self.cheap(self.cc), f"{how}({change}) with using() call {k}/{n} raising {en}", fault="using-raises", exc=en)
                ctx.check(self.resolved_identity(self.cc) == ident, "C10", "context-changed-by-failed-change",
                          "resolved hasher objects were replaced", observable="handler-identity", fault="using-raises", exc=en)
            self.same(before_full, self.full(self.cc), f"after {n} failed {how}({change}) attempts raising {en}", fault="using-raises", exc=en)
        # ... and the next valid change still works
        st.update(calls=0, arm=0, fired=0)
        self.op_valid_update({"delta": change, "how": how if how != "load_replace" else "update"})
        self.kinds.add(f"using-raises:{n}")
        ctx.nontrivial = True

    def invalid_item(self, kind, cat):
        """-> (key, value) that must make a change fail, or None if not expressible for this configuration"""
        names = self.names
        costed = [s for s in names if s in COSTED]
        s0 = names[0]
        if kind == "unknown_scheme":
            return ("schemes", [self.objs.get(s0, s0), "no_such_scheme_xyz"])
        if kind == "unknown_option":
            return (f"{s0}__no_such_option", 3)
        if kind == "forbidden_salt":
            return (f"{s0}__salt", "abcdefgh")
        if kind == "default_not_in_schemes":
            return ("default", "sha512_crypt" if "sha512_crypt" not in names else "md5_crypt" if "md5_crypt" not in names else "nthash")
        if kind == "deprecated_not_in_schemes":
            return ("deprecated", ["lmhash"])
        if kind == "default_deprecated":
            return ("deprecated", [self.cc.default_scheme()])
        if kind == "all_deprecated":
            return ("deprecated", list(names))
        if kind == "wrong_value_type":
            return ("deprecated", 5) if len(names) % 2 else ("default", 7)
        if kind == "non_numeric_rounds":
            return (f"{costed[0]}__min_rounds", "many") if costed else None
        if kind == "max_below_min":
            if not costed:
                return None
            lo, hi, _ = COSTED[costed[0]]
            return None  # needs two keys: handled by pair below
        if kind == "default_below_min":
            return None
        if kind == "four_part_key":
            return (f"{cat}__{s0}__min__rounds", 5)
        if kind == "empty_category":
            return (f"__{s0}__min_rounds", 5)
        if kind == "empty_scheme":
            return (f"{cat}____min_rounds", 5)
        if kind == "empty_option":
            return (f"{s0}__", 5)
        if kind == "duplicate_scheme":
            return ("schemes", [self.objs.get(s, s) for s in names] + [self.objs.get(s0, s0)])
        if kind == "unknown_context_key":
            return ("no_such_context_key", 1)
        if kind == "schemes_per_category":
            return (f"{cat}__context__schemes", [s0])
        if kind == "auto_plus_other":
            return ("deprecated", ["auto", s0])
        if kind == "vary_rounds_negative":
            return (f"{costed[0]}__vary_rounds", -1) if costed else None
        if kind == "vary_rounds_above_one":
            return (f"{costed[0]}__vary_rounds", 1.5) if costed else None
        return None

    def invalid_pairs(self, kind):
        costed = [s for s in self.names if s in COSTED]
        if not costed:
            return None
        s = costed[0]
        lo, hi, _ = COSTED[s]
        if kind == "max_below_min":
            return [(f"{s}__min_rounds", hi), (f"{s}__max_rounds", lo)]
        if kind == "default_below_min":
            return [(f"{s}__min_rounds", hi), (f"{s}__default_rounds", lo), (f"{s}__max_rounds", hi)]
        return None

    def op_failed_item(self, op):
        """an offending item at every position of the change's item order"""
        ctx = self.ctx
        kind = op["kind"]
        how = op["how"]
        base = list((op.get("delta") or {}).items())
        bad = self.invalid_item(kind, op["cat"])
        bads = [bad] if bad else self.invalid_pairs(kind)
        if not bads:
            return
        if how == "ini_text":
            if any(not isinstance(v, (int, float, str, list)) or (isinstance(v, list) and any(not isinstance(x, str) for x in v)) for _, v in bads + base):
                how = "update"
            if kind in ("wrong_value_type", "empty_category", "empty_option"):
                how = "update"
        if how == "update" and any(not k.replace("_", "a").isidentifier() for k, _ in bads + base):
            how = "load_update"
        before_full = self.full(self.cc)
        before = self.cheap(self.cc)
        accepted = False
        for p in range(len(base) + 1):
            items = base[:p] + bads + base[p:]
            change = dict(items)
            if len(change) != len(items):
                continue
            self.attempt()
            r = self.apply(self.cc, change, how)
            ctx.fault("invalid_item")
            if r[0] == "ok":
                # not refused: nothing to judge under C10's second sentence; put the old configuration back
                accepted = True
                ctx.probe("invalid_item_accepted:" + kind)
                rr = _call(self.cc.load, self.cur)
                if rr[0] == "exc":
                    ctx.fail("C10", "restore-failed", f"load(previous configuration) raised {rr[1]}: {rr[2]}")
                continue
            ctx.probe("refused_with_" + r[1])
            self.same(before, self.cheap(self.cc), f"{how}({ {k: getattr(v, 'name', v) if not isinstance(v, list) else [getattr(x, 'name', x) for x in v] for k, v in change.items()} }) "
                      f"refused with {r[1]}", fault="invalid-item", kind=kind, position="first" if p == 0 else "last" if p == len(base) else "middle")
        self.same(before_full, self.full(self.cc), f"after the {kind} attempts ({'incl. accepted+restored' if accepted else 'all refused'})",
                  fault="invalid-item", kind=kind, position="sequence")
        self.kinds.add("item:" + kind)
        ctx.nontrivial = True

    def op_failed_file(self, op):
        ctx = self.ctx
        fault = op["fault"]
        upd = op["update"]
        change = dict(op.get("delta") or {})
        target = self.merged(change) if not upd else change
        if self.faulty:
            target = {k: ([getattr(x, "name", x) for x in v] if isinstance(v, list) else v) for k, v in target.items()}
        if upd and not target:
            target = {"deprecated": []}
        text = render_ini(target).encode("utf-8")
        before_full = self.full(self.cc)
        before = self.cheap(self.cc)
        from passlib.context import CryptContext

        def load():
            return _call(self.cc.load_path, PATH, update=upd)

        def judge(r, what, must_fail):
            self.attempt()
            if r[0] == "exc":
                self.same(before, self.cheap(self.cc), what + f" -> {r[1]}", fault=fault)
                return
            ctx.check(not must_fail, "C10", "unreadable-policy-file-accepted", what, fault=fault)
            # a shorter but well-formed file is simply another configuration: it must equal loading that text directly
            data = self.fs.get(PATH).decode("utf-8", "replace")
            exp = _call(lambda: CryptContext.from_string(data)) if not upd else None
            if exp is not None and exp[0] == "ok" and not self.faulty:
                a, b = self.cheap(self.cc), self.cheap(exp[1])
                ctx.check(a == b, "C10", "load-path-differs-from-load-string", what)
            rr = _call(self.cc.load, self.cur)
            if rr[0] == "exc":
                ctx.fail("C10", "restore-failed", f"load(previous configuration) raised {rr[1]}: {rr[2]}")

        if fault == "missing":
            self.fs.files.pop(PATH, None)
            ctx.fault("policy_file_missing")
            judge(load(), "load_path of a missing file", True)
        elif fault == "unreadable":
            self.fs.put(PATH, text)
            for e in (errno.EACCES, errno.EIO, errno.EMFILE):
                self.fs.armed = {"kind": "open_error", "errno": e}
                ctx.fault("policy_file_unreadable")
                judge(load(), f"load_path with open() failing (errno {e})", True)
        elif fault == "read_error":
            self.fs.put(PATH, text)
            for b in range(0, len(text) + 1, 64):
                self.fs.armed = {"kind": "read_error", "after": b}
                ctx.fault("policy_file_read_error")
                judge(load(), f"load_path with a read error after {b} bytes", True)
        elif fault == "truncated":
            cuts = [i + 1 for i, ch in enumerate(text) if ch == 10] + [1, 4, len(b"[passlib")]
            for c in sorted(set(cuts)):
                self.fs.put(PATH, text[:c])
                ctx.fault("policy_file_truncated")
                judge(load(), f"load_path of the policy file truncated to {c} bytes", c < len(b"[passlib]"))
        elif fault == "wrong_section":
            self.fs.put(PATH, text.replace(b"[passlib]", b"[other]"))
            ctx.fault("policy_file_wrong_section")
            judge(load(), "load_path of a file without the [passlib] section", True)
        elif fault == "not_utf8":
            self.fs.put(PATH, text[:20] + b"\xff\xfe\xfa" + text[20:])
            ctx.fault("policy_file_not_utf8")
            judge(load(), "load_path of a file that is not UTF-8", True)
        self.fs.armed = None
        self.same(before_full, self.full(self.cc), f"after the policy-file faults ({fault})", fault=fault)
        self.kinds.add("file:" + fault)
        ctx.nontrivial = True
