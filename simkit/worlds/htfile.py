"""world `htfile` -- property C16 (DESIGN.md section 4).

Seeded operation histories on HtpasswdFile / HtdigestFile over a simulated file system with an mtime
clock, a second library object bound to the same path, an external editor rewriting the file
directly, and I/O faults. Oracle: independent line reader + document model (refmodels/htfile.py).
"""

from __future__ import annotations

import errno
import warnings

from simkit.core import dec, enc
from simkit.refmodels.htfile import DocModel, Malformed, is_subsequence, read_lines, reader, render
from simkit.refmodels.known_hashes import MIN_COST
from simkit.seams import SimFS, SimRandom

NAME = "htfile"
RULE = {
    "C16": "seeded histories (5-40 ops) of set_password / set_hash / delete / delete_realm / check_password / get_hash / users / realms / "
           "load / load_string / load_if_changed / save / to_string on 1-3 objects (admin tool, server bound to the same path, unbound "
           "copy) starting from generated file content (comments, blank lines, duplicates, CRLF, no final newline, leading blanks, "
           "malformed lines), with clock ticks below/above the mtime granularity, an external editor and armed I/O faults; after every "
           "op the export is parsed by an independent reader and compared with a document model; non-trivial = >=1 state-changing op "
           "and >=1 export check; distinct = distinct (class, initial-file features, multiset of op kinds, fault kinds fired, final key set)",
}
FAULT_KINDS = {"C16": ["io_open_error", "io_read_error", "io_write_error_eio", "io_write_error_enospc", "external_edit",
                       "same_tick_write", "malformed_external_edit", "clock_step_back", "io_write_during_read"]}
COMPONENTS = {
    "real": ["passlib.apache.HtpasswdFile / HtdigestFile / _CommonFile (all methods)", "passlib.apache.htpasswd_context and custom "
             "CryptContexts", "passlib.hash.htdigest and every scheme of the contexts"],
    "stub": ["file system and mtime clock (passlib.apache.open / passlib.apache.os rebound to SimFS)", "external editor", "I/O fault injector",
             "process-wide random source (SimRandom, stream mode)"],
    "unavailable": [],
}
ASSUMPTIONS = {"*": ["the htpasswd/htdigest grammar of the independent reader: one record per line, ':'-separated, blank and '#' lines "
                     "are not records, first record of a key wins", "passwords contain no ':' and no line breaks and are not empty; plaintext-scheme records only in UTF-8 files (the plaintext handler "
                     "reads passwords as UTF-8 whatever the file's encoding) and never 2 characters long (a des_crypt salt)",
                     "nothing is asserted about the content of a file torn by a failed save"]}

USERS = ["alice", "bob", "carol", "ünï", "x y", "Bob"]
REALMS = ["r1", "Realm Two", "ü"]
UNNORMALISED = ["e\u0301ve", "\u212bke", "\u1112\u1161\u11ab", "u\u0308ni"]
PWS = ["pw", "secret", "Pw", "pässword", "p w"]
DEFAULT_CTX_SCHEMES = ["apr_md5_crypt", "bcrypt", "sha256_crypt", "sha512_crypt", "des_crypt", "ldap_sha1", "plaintext",
                       "md5_crypt", "sha1_crypt", "bsdi_crypt"]
CUSTOM_SCHEMES = ["apr_md5_crypt", "md5_crypt", "sha256_crypt", "des_crypt", "ldap_sha1", "ldap_salted_sha1", "pbkdf2_sha256", "phpass",
                  "bcrypt", "hex_md5"]
# default_scheme= aliases of HtpasswdFile, as documented (a bcrypt backend is available on this image)
DS_ALIASES = {"portable_apache_22": "apr_md5_crypt", "linux_apache_22": "sha256_crypt", "portable": "bcrypt", "portable_apache_24": "bcrypt",
              "linux_apache_24": "bcrypt", "host": "bcrypt", "host_apache_24": "bcrypt",
              "host_apache_22": "bcrypt"}  # (this image's crypt(3) serves bcrypt: the host's strongest)
BAD_NAMES = ["a:b", "a\nb", "a\rb", "a\tb", "a\x00b", "x" * 256, ":", "\n", "é" * 128, "a\x0bb", "a\x1fb", "a\x7fb", "\x1bx", "x\x0c"]  # (the last one: 128 characters, 256 UTF-8 bytes)


# ---------------------------------------------------------------------------------------------
# generation
# ---------------------------------------------------------------------------------------------
def _gen_line(rng, cls, schemes, used):
    r = rng.random()
    if r < 0.55:
        u = rng.choice(USERS)
        realm = rng.choice(REALMS) if cls == "htdigest" else None
        kind = "rec"
        if (u, realm) in used and rng.random() < 0.8:
            kind = "dup"
        used.add((u, realm))
        return {"k": kind, "user": u, "realm": realm, "scheme": rng.choice(schemes) if rng.random() > 0.04 else "@empty", "pw": rng.choice(PWS),
                "lead": rng.choice(["", "", "", "", " ", "\t"]), "eol": rng.choice(["\n", "\n", "\n", "\r\n", " \n"])}
    if r < 0.78:
        return {"k": "text", "v": rng.choice(["# comment", "#", "  # indented", "# user:hash", "#a:b:c"]), "eol": rng.choice(["\n", "\n", "\r\n"])}
    if r < 0.95:
        return {"k": "text", "v": rng.choice(["", "", "   ", "\t"]), "eol": "\n"}
    return {"k": "bad", "v": rng.choice(["nocolon", "a:b:c:d", "::::", "justtext here"]), "eol": "\n"}


def _gen_lines(rng, cls, schemes, n, allow_bad):
    used = set()
    lines = []
    for _ in range(n):
        ln = _gen_line(rng, cls, schemes, used)
        if ln["k"] == "bad" and not allow_bad:
            continue
        lines.append(ln)
    if lines and rng.random() < 0.25:
        lines[-1]["eol"] = ""  # no final newline
    return lines


def generate(rng, prop, tier):
    cls = rng.choice(["htpasswd", "htpasswd", "htdigest"])
    context = "default"
    schemes = DEFAULT_CTX_SCHEMES
    if cls == "htpasswd" and rng.random() < 0.45:
        sch = rng.sample(CUSTOM_SCHEMES, rng.randint(1, 4))
        dep = [s for s in sch[1:] if rng.random() < 0.5]
        context = {"schemes": sch, "deprecated": dep}
        schemes = sch
    if cls == "htdigest":
        schemes = ["htdigest"]
    default_scheme = None
    if cls == "htpasswd" and rng.random() < 0.35:
        if context == "default":
            default_scheme = rng.choice(["portable_apache_22", "apr_md5_crypt"])  # (the others cost 12 bcrypt rounds / 535000 sha rounds per hash)
        else:
            live = [s for s in context["schemes"] if s not in context["deprecated"]]
            default_scheme = rng.choice(live + [a for a, t in sorted(DS_ALIASES.items()) if t in live])
    faults_on = rng.random() < 0.5
    encoding = rng.choice(["utf-8", "utf-8", "latin-1"])
    if encoding != "utf-8":
        # the plaintext handler reads password and "hash" as UTF-8 whatever the file's encoding: outside the domain
        schemes = [s for s in schemes if s != "plaintext"] or ["apr_md5_crypt"]
    cfg = {
        "cls": cls, "encoding": encoding, "return_unicode": rng.random() < 0.7,
        "autosave": rng.random() < 0.4, "context": context, "default_realm": rng.choice([None, "r1"]) if cls == "htdigest" else None,
        "gran": rng.choice([1.0, 1.0, 0.01, 1e-9, 2.0]), "server": rng.random() < 0.5, "unbound": rng.random() < 0.3,
        "initial": _gen_lines(rng, cls, schemes, rng.choice([0, 1, 3, 5, 8, 12]), allow_bad=rng.random() < 0.1),
        "file_exists": rng.random() < 0.9, "faults_on": faults_on, "seed": rng.getrandbits(32), "default_scheme": default_scheme,
    }
    nobj = 1 + int(cfg["server"]) + int(cfg["unbound"])
    ops = []
    nops = rng.randint(5, 30 if tier == "quick" else 40)
    kinds = ["set_password", "set_password", "set_hash", "set_hash", "delete", "delete", "check_password", "check_password",
             "check_password", "get_hash", "users", "load", "load_string", "load_if_changed", "load_if_changed", "save", "save",
             "tick", "tick", "bad_name", "odd_name"]
    if cls == "htdigest":
        kinds += ["delete_realm", "realms"]
    kinds += ["external_edit"] * 3 + ["save_as", "load_from", "rebind", "toggle"]
    if faults_on:
        kinds += ["io_fault"] * 3
    for _ in range(nops):
        k = rng.choice(kinds)
        o = rng.randrange(nobj)
        u = rng.choice(USERS)
        realm = rng.choice(REALMS) if cls == "htdigest" else None
        if encoding == "utf-8" and rng.random() < 0.12:
            # names that are not in Unicode normal form (decomposed accents, ANGSTROM SIGN, conjoining jamo): a name is the bytes given
            u = rng.choice(UNNORMALISED)
            if realm is not None and rng.random() < 0.5:
                realm = rng.choice(UNNORMALISED)
        if cls == "htdigest" and cfg["default_realm"] and rng.random() < 0.4:
            realm = None  # use default_realm
        as_bytes = rng.random() < 0.25
        if k == "set_password":
            ops.append({"op": k, "o": o, "user": u, "realm": realm, "pw": rng.choice(PWS), "bytes": as_bytes})
        elif k == "set_hash":
            ops.append({"op": k, "o": o, "user": u, "realm": realm, "scheme": rng.choice(schemes), "pw": rng.choice(PWS), "bytes": as_bytes,
                        "hash_bytes": rng.random() < 0.3})
        elif k in ("delete", "get_hash"):
            ops.append({"op": k, "o": o, "user": u, "realm": realm, "bytes": as_bytes})
        elif k == "delete_realm":
            ops.append({"op": k, "o": o, "realm": rng.choice(REALMS)})
        elif k == "check_password":
            ops.append({"op": k, "o": o, "user": u, "realm": realm, "pw": rng.choice(PWS), "right": rng.random() < 0.6, "bytes": as_bytes})
        elif k in ("users", "realms", "load", "load_if_changed", "save", "save_as", "load_from", "rebind"):
            ops.append({"op": k, "o": o, "realm": realm})
        elif k == "toggle":
            # settings are plain attributes: an application may flip them in the middle of a history
            ops.append({"op": k, "o": o, "what": rng.choice(["autosave", "autosave", "return_unicode"])})
        elif k == "load_string":
            ops.append({"op": k, "o": o, "lines": _gen_lines(rng, cls, schemes, rng.choice([0, 2, 4, 7]), allow_bad=rng.random() < 0.15),
                        "as_text": rng.random() < 0.3})
        elif k == "tick":
            g = cfg["gran"]
            dt = rng.choice([0, g / 4, g / 2, g, 1.5 * g, 3 * g, 60])
            if faults_on and rng.random() < 0.25:
                dt = -rng.choice([g, 3 * g, 60, 3600])  # the clock is stepped back (NTP correction, restored VM snapshot)
            ops.append({"op": "tick", "dt": dt})
        elif k == "bad_name":
            ops.append({"op": k, "o": o, "method": rng.choice(["set_password", "set_hash", "delete", "get_hash", "check_password", "users", "delete_realm"]),
                        "name": rng.choice(BAD_NAMES), "which": rng.choice(["user", "realm", "realm", "default_realm"] if cls == "htdigest" else ["user"])})
        elif k == "odd_name":
            # legal-looking names that collide with the file syntax: a record line that begins with '#' reads as a comment
            ops.append({"op": k, "o": o, "name": rng.choice(["#dave", " #x", "#", "# a comment", "a#b", "x #"]),
                        "which": rng.choice(["user", "user", "realm"] if cls == "htdigest" else ["user"]), "via": rng.choice(["set_password", "set_hash"])})
        elif k == "external_edit":
            ops.append({"op": k, "kind": rng.choice(["append_rec", "append_rec", "remove_line", "swap_lines", "add_comment", "add_blank",
                                                     "dup_line", "malformed", "crlf", "strip_final_newline", "replace_all", "truncate_file",
                                                     "delete_file"]),
                        "pos": rng.randint(0, 20), "line": _gen_line(rng, cls, schemes, set())})
        elif k == "io_fault":
            fk = rng.choice(["open_error", "read_error", "write_error", "write_error", "write_during_read"])
            f = {"op": k, "kind": fk, "errno": rng.choice(["ENOENT", "EACCES", "EIO", "ENOSPC"]), "after": rng.choice([0, 1, 7, 20, 45, 100, 300])}
            if fk == "write_during_read":
                # a foreign writer replaces the file while this process is in the middle of reading it
                g = cfg["gran"]
                f["dt"] = rng.choice([0, g / 2, g, g, 3 * g, 60])
                f["edit"] = {"op": "external_edit", "kind": rng.choice(["append_rec", "append_rec", "remove_line", "replace_all", "add_comment", "dup_line"]),
                             "pos": rng.randint(0, 20), "line": _gen_line(rng, cls, schemes, set())}
            ops.append(f)
            # place the fault inside workload: the next op touches the file
            if fk == "write_during_read":
                ops.append({"op": rng.choice(["load", "load_if_changed", "load_if_changed"]), "o": o, "realm": realm})
                if rng.random() < 0.7:
                    ops.append({"op": "load_if_changed", "o": o, "realm": realm})
            else:
                ops.append({"op": rng.choice(["load", "save", "load_if_changed", "save"]), "o": o, "realm": realm})
    return {"cfg": cfg, "ops": ops}


def simplify_op(op):
    out = []
    if op.get("op") == "load_string" and op.get("lines"):
        for i in range(len(op["lines"])):
            out.append(dict(op, lines=op["lines"][:i] + op["lines"][i + 1:]))
    if op.get("bytes"):
        out.append(dict(op, bytes=False))
    return out


def simplify_cfg(cfg):
    out = []
    ini = cfg.get("initial") or []
    for i in range(len(ini)):
        out.append(dict(cfg, initial=ini[:i] + ini[i + 1:]))
    for k, v in (("server", False), ("unbound", False), ("autosave", False), ("encoding", "utf-8"), ("return_unicode", True), ("gran", 1.0)):
        if cfg.get(k) != v:
            out.append(dict(cfg, **{k: v}))
    return out


# ---------------------------------------------------------------------------------------------
# execution
# ---------------------------------------------------------------------------------------------
PATH = "/sim/etc/passwords"
PATH2 = "/sim/etc/passwords.copy"


class _W:
    def __init__(self, cfg, ctx):
        import passlib.apache as pa
        import passlib.hash

        self.pa = pa
        self.ph = passlib.hash
        self.ctx = ctx
        self.cfg = cfg
        self.nf = 2 if cfg["cls"] == "htpasswd" else 3
        self.enc = cfg["encoding"]
        SimRandom(cfg["seed"]).install()
        self.fs = SimFS(cfg["gran"], ctx=ctx)
        pa.open = self.fs.open
        pa.os = self.fs.os_shim()
        self.known = {}  # hash bytes -> (pw, scheme)
        self.context = None
        self.default_scheme = None
        self.deprecated = set()
        if cfg["cls"] == "htpasswd":
            if cfg["context"] == "default":
                self.context = pa.htpasswd_context
                self.default_scheme = "apr_md5_crypt"
            else:
                from passlib.context import CryptContext

                kw = {"schemes": cfg["context"]["schemes"], "deprecated": cfg["context"]["deprecated"]}
                for s in cfg["context"]["schemes"]:
                    if MIN_COST.get(s) is not None:
                        kw[f"{s}__default_rounds"] = MIN_COST[s]
                self.context = CryptContext(**kw)
                self.default_scheme = cfg["context"]["schemes"][0]
                self.deprecated = set(cfg["context"]["deprecated"])
            if cfg.get("default_scheme"):
                self.default_scheme = DS_ALIASES.get(cfg["default_scheme"], cfg["default_scheme"])
        self.features = set()
        if cfg["file_exists"]:
            self.fs.put(PATH, self.materialise(cfg["initial"], initial=True))
        self.objs = []
        self._make_objects()
        self.opkinds = {}

    # -- helpers ---------------------------------------------------------------------------------
    def b(self, s):
        return s if isinstance(s, bytes) else s.encode(self.enc)

    def make_hash(self, scheme, pw, user=None, realm=None):
        """a hash of pw by one scheme, at minimum cost, made by the unconfigured handler"""
        if scheme == "@empty":
            return b""  # a record whose hash field is empty ('user:'): the user exists, nobody's password matches
        with warnings.catch_warnings():
            warnings.simplefilter("ignore")
            if scheme == "htdigest":
                h = self.ph.htdigest.hash(pw, user, realm, encoding=self.enc)
            elif scheme == "plaintext":
                if len(pw) < 3:
                    pw = pw + "-plain"  # (a 2-character string is also a des_crypt salt: inherently ambiguous, not generated)
                if self.enc != "utf-8":
                    # the plaintext handler reads its "hash" as UTF-8 whatever the file's encoding is; non-ASCII plaintext
                    # records in a latin-1 file are outside the generated domain (recorded as an assumption)
                    pw = pw.encode("ascii", "replace").decode("ascii")
                h = pw.encode(self.enc)  # the password itself, as the bytes the file holds
            else:
                H = getattr(self.ph, scheme)
                c = MIN_COST.get(scheme)
                pwb = pw.encode(self.enc)  # the file classes hand the context bytes in the file's encoding
                h = H.using(**({"rounds": c} if c is not None else {})).hash(pwb)
        hb = h.encode("ascii") if isinstance(h, str) else h
        self.known[hb] = (pw, scheme)
        return hb

    def materialise(self, lines, initial=False):
        out = b""
        for ln in lines:
            if ln["k"] in ("rec", "dup"):
                realm = ln["realm"]
                hb = self.make_hash(ln["scheme"], ln["pw"], ln["user"], realm)
                key = self.b(ln["user"]) if self.nf == 2 else (self.b(ln["user"]), self.b(realm))
                line = self.b(ln["lead"]) + render(key, hb, self.nf)[:-1] + self.b(ln["eol"])
                if initial:
                    if ln["k"] == "dup":
                        self.features.add("dup")
                    if ln["lead"]:
                        self.features.add("leading-blank")
            elif ln["k"] == "text":
                line = self.b(ln["v"]) + self.b(ln["eol"])
            else:
                line = self.b(ln["v"]) + self.b(ln["eol"])
                if initial:
                    self.features.add("malformed")
            if initial and ln["eol"] == "\r\n":
                self.features.add("crlf")
            if initial and ln["eol"] == "":
                self.features.add("no-final-newline")
            out += line
        return out

    def _new(self, bound, autosave):
        cfg = self.cfg
        kw = {"encoding": cfg["encoding"], "return_unicode": cfg["return_unicode"]}
        if bound:
            kw.update(path=PATH, autosave=autosave)
        if cfg["cls"] == "htpasswd":
            if cfg["context"] != "default":
                kw["context"] = self.context
            if cfg.get("default_scheme"):
                kw["default_scheme"] = cfg["default_scheme"]
            C = self.pa.HtpasswdFile
        else:
            kw["default_realm"] = cfg["default_realm"]
            C = self.pa.HtdigestFile
        model = DocModel(self.nf)
        if bound:
            data = self.fs.get(PATH)
            try:
                with warnings.catch_warnings():
                    warnings.simplefilter("ignore")
                    ht = C(**kw)
                    outcome = "ok"
            except Exception as e:
                outcome = type(e).__name__
                ht = None
            if data is None:
                want = "FileNotFoundError"
            else:
                try:
                    model.load(data)
                    model.mtime_read = self.fs.getmtime(PATH)
                    want = "ok"
                except Malformed:
                    want = "ValueError"
            self.ctx.check(outcome == want, "C16", "constructor-outcome", f"opening {data!r}: got {outcome}, expected {want}",
                           got=outcome, want=want)
            if ht is None:
                kw["new"] = True
                ht = C(**kw)
                model = DocModel(self.nf)
        else:
            # an unbound copy: empty, or built by the alternate constructors from what the file holds now (they load, but do not bind)
            how = ("empty", "from_string", "from_path")[cfg["seed"] % 3]
            data = self.fs.get(PATH)
            ht = None
            if how != "empty" and data is not None:
                try:
                    model.load(data)
                    want = "ok"
                except Malformed:
                    model = DocModel(self.nf)
                    want = "ValueError"
                try:
                    with warnings.catch_warnings():
                        warnings.simplefilter("ignore")
                        ht = C.from_string(data, **kw) if how == "from_string" else C.from_path(PATH, **kw)
                    outcome = "ok"
                except Exception as e:
                    outcome = type(e).__name__
                    ht = None
                self.ctx.check(outcome == want, "C16", "constructor-outcome", f"{how}({data!r}): got {outcome}, expected {want}", got=outcome, want=want)
                if ht is not None:
                    self.ctx.check(ht.path is None, "C16", "constructor-outcome", f"{how}() bound the copy to {ht.path!r}", got="bound", want="unbound")
            if ht is None:
                model = DocModel(self.nf)
                ht = C(**kw)
        return {"ht": ht, "model": model, "bound": bound, "autosave": bound and autosave, "path": PATH if bound else None, "ru": cfg["return_unicode"]}

    def _make_objects(self):
        cfg = self.cfg
        self.objs.append(self._new(True, cfg["autosave"]))
        if cfg["server"]:
            self.objs.append(self._new(True, False))
        if cfg["unbound"]:
            self.objs.append(self._new(False, False))
        for o in self.objs:
            self.verify_state(o, "after-construction")

    def key(self, user, realm):
        if self.nf == 2:
            return self.b(user)
        if realm is None:
            realm = self.cfg["default_realm"]
        return (self.b(user), self.b(realm))

    def args(self, op):
        """(user[, realm]) as the API takes them, text or bytes"""
        u = op["user"].encode(self.enc) if op.get("bytes") else op["user"]
        if self.nf == 2:
            return [u]
        r = op.get("realm")
        if r is not None and op.get("bytes"):
            r = r.encode(self.enc)
        return [u, r]

    # -- the oracle ----------------------------------------------------------------------------------
    def verify_state(self, o, where):
        ctx = self.ctx
        ht, model = o["ht"], o["model"]
        try:
            s = ht.to_string()
        except Exception as e:
            ctx.fail("C16", "export-raises", f"{where}: to_string() raised {type(e).__name__}: {e}", exc=type(e).__name__)
        ctx.check(isinstance(s, bytes), "C16", "export-type", repr(type(s)))
        ctx.log("state", where, s)
        self.check_text(s, model, where, "export")

    def check_text(self, s, model, where, what):
        ctx = self.ctx
        try:
            recs, count = reader(s, self.nf)
        except Malformed as e:
            ctx.fail("C16", "export-does-not-parse", f"{where}: {what} {s!r}: {e}", what=what)
        if recs != model.recs or any(c != 1 for c in count.values()):
            missing = sorted(map(repr, set(model.recs) - set(recs)))
            extra = sorted(map(repr, set(recs) - set(model.recs)))
            diff = sorted(repr(k) for k in set(recs) & set(model.recs) if recs[k] != model.recs[k])
            dups = sorted(repr(k) for k, c in count.items() if c != 1)
            kind = "missing" if missing else "resurrected-or-extra" if extra else "wrong-hash" if diff else "duplicate-line"
            ctx.fail("C16", "export-differs-from-database",
                     f"{where}: {what} {s!r} parses to a different database: missing={missing} extra={extra} wrong-hash={diff} "
                     f"more-than-once={dups}", kind=kind, what=what)
        ctx.n_checks += 1
        lines = [ln.rstrip(b"\r\n") for ln in s.split(b"\n")]  # physical lines end at LF only (a lone CR is data)
        want = model.expected_untouched_lines()
        ctx.check(is_subsequence(want, lines), "C16", "untouched-items-order",
                  lambda: f"{where}: untouched items {want!r} are not an in-order part of {what} lines {lines!r}", what=what)

    def resync_after_save(self, o):
        """after a successful save through o the file is o's export and o has read its mtime"""
        data = self.fs.get(o["path"])
        try:
            s = o["ht"].to_string()
        except Exception as e:
            self.ctx.fail("C16", "export-raises", f"after save: {type(e).__name__}: {e}", exc=type(e).__name__)
        self.ctx.check(data == s, "C16", "saved-file-differs-from-export", lambda: f"file {data!r} export {s!r}")
        self.check_text(data, o["model"], "after-save", "file")
        o["model"].mtime_read = self.fs.getmtime(o["path"])

    def mutate_done(self, o, where):
        """bookkeeping after a state-changing call that returned normally"""
        self.ctx.nontrivial = True
        if o["autosave"]:
            self.resync_after_save(o)
        self.verify_state(o, where)

    # -- calls with fault handling -----------------------------------------------------------------------
    def call(self, fn, *a):
        with warnings.catch_warnings():
            warnings.simplefilter("ignore")
            try:
                return ("ok", fn(*a))
            except Exception as e:
                return ("exc", type(e).__name__, e)

    def io_failed(self, r):
        return r[0] == "exc" and isinstance(r[2], OSError)

    def after_failed_autosave(self, o, key, where):
        """row 'write error mid-save' of the fault table: the exception is expected; the in-memory state must be intact;
        whether the triggering mutation itself is visible is not fixed -> re-synchronise that one key from get_hash"""
        ht, model = o["ht"], o["model"]
        if key is not None:
            for k in ([key] if not isinstance(key, list) else key):
                cur = self._peek(ht, k)
                if cur is None:
                    model.delete(k)
                else:
                    model.set(k, cur)
        self.verify_state(o, where + "(failed autosave)")

    def _peek(self, ht, key):
        """current hash of key, read from the object's own export (keys loaded from a file may contain bytes,
        e.g. a leading tab, that the API refuses as arguments)"""
        try:
            recs, _ = reader(ht.to_string(), self.nf)
        except Malformed:
            return None
        except Exception as e:
            self.ctx.fail("C16", "export-raises", f"to_string() raised {type(e).__name__}: {e}", exc=type(e).__name__)
        return recs.get(key)

    # -- operations --------------------------------------------------------------------------------------
    def op_set(self, op, o):
        ctx = self.ctx
        ht, model = o["ht"], o["model"]
        key = self.key(op["user"], op.get("realm"))
        if self.nf == 3 and op.get("realm") is None and not self.cfg["default_realm"]:
            return
        a = self.args(op)
        if op["op"] == "set_password":
            pw = op["pw"].encode(self.enc) if op.get("bytes") and self.nf == 2 else op["pw"]
            if self.nf == 3 and a[1] is None:
                r = self.call(ht.set_password, a[0], pw)  # two-argument form with default_realm
            else:
                r = self.call(ht.set_password, *a, pw)
            scheme = self.default_scheme if self.nf == 2 else "htdigest"
        else:
            hb = self.make_hash(op["scheme"], op["pw"], op["user"], op.get("realm") or self.cfg["default_realm"])
            h = hb if op.get("hash_bytes") else hb.decode(self.enc)
            if self.nf == 3 and a[1] is None:
                r = self.call(ht.set_hash, a[0], h)
            else:
                r = self.call(ht.set_hash, *a, h)
            scheme = op["scheme"]
        fired = self.fs.reset_fired()
        if self.io_failed(r) and fired and o["autosave"]:
            self.after_failed_autosave(o, key, op["op"])
            cur = self._peek(ht, key)
            if cur is not None and cur not in self.known:
                self.known[cur] = (op["pw"], scheme)
            return
        if r[0] == "exc":
            ctx.fail("C16", "operation-raises", f"{op['op']}({a}) raised {r[1]}: {r[2]}", op=op["op"], exc=r[1])
        existed = model.set(key, self._peek(ht, key) or b"?")
        cur = self._peek(ht, key)
        ctx.check(cur is not None, "C16", "set-not-visible", f"{op['op']}({a}): get_hash is None afterwards", op=op["op"])
        if op["op"] == "set_password":
            self.known[cur] = (op["pw"], scheme)
            if self.nf == 2 and cur is not None:
                H = getattr(self.ph, scheme)
                with warnings.catch_warnings():
                    warnings.simplefilter("ignore")
                    good = H.identify(cur) and H.verify(op["pw"].encode(self.enc), cur)
                ctx.check(good, "C16", "new-hash-not-from-default-scheme",
                          lambda: f"set_password stored {cur!r}: not a {scheme} hash of {op['pw']!r} (default_scheme={self.cfg.get('default_scheme')!r})",
                          scheme=scheme)
        else:
            ctx.check(cur == hb, "C16", "set-hash-stored-differently", f"stored {cur!r} given {hb!r}")
        ctx.check(r[1] is existed, "C16", "return-value", f"{op['op']}({a}) returned {r[1]!r}, user existed: {existed}", op=op["op"])
        self.mutate_done(o, op["op"])

    def op_delete(self, op, o):
        ctx = self.ctx
        ht, model = o["ht"], o["model"]
        if self.nf == 3 and op.get("realm") is None and not self.cfg["default_realm"]:
            return
        key = self.key(op["user"], op.get("realm"))
        a = self.args(op)
        r = self.call(ht.delete, *a)
        fired = self.fs.reset_fired()
        if self.io_failed(r) and fired and o["autosave"]:
            self.after_failed_autosave(o, key, "delete")
            return
        if r[0] == "exc":
            ctx.fail("C16", "operation-raises", f"delete({a}) raised {r[1]}: {r[2]}", op="delete", exc=r[1])
        existed = model.delete(key)
        ctx.check(r[1] is existed, "C16", "return-value", f"delete({a}) returned {r[1]!r}, user existed: {existed}", op="delete")
        if existed:
            self.mutate_done(o, "delete")
        else:
            self.verify_state(o, "delete(unknown user)")

    def op_delete_realm(self, op, o):
        ctx = self.ctx
        ht, model = o["ht"], o["model"]
        realm = self.b(op["realm"])
        keys = [k for k in model.recs if k[1] == realm]
        r = self.call(ht.delete_realm, op["realm"])
        fired = self.fs.reset_fired()
        if self.io_failed(r) and fired and o["autosave"]:
            self.after_failed_autosave(o, keys, "delete_realm")
            return
        if r[0] == "exc":
            ctx.fail("C16", "operation-raises", f"delete_realm({op['realm']!r}) raised {r[1]}: {r[2]}", op="delete_realm", exc=r[1])
        for k in keys:
            model.delete(k)
        ctx.check(r[1] == len(keys), "C16", "return-value", f"delete_realm returned {r[1]!r}, expected {len(keys)}", op="delete_realm")
        self.mutate_done(o, "delete_realm")

    def op_check(self, op, o):
        ctx = self.ctx
        ht, model = o["ht"], o["model"]
        if self.nf == 3 and op.get("realm") is None and not self.cfg["default_realm"]:
            return
        key = self.key(op["user"], op.get("realm"))
        stored = model.recs.get(key)
        known = self.known.get(stored) if stored is not None else None
        pw = op["pw"]
        if known and op["right"]:
            pw = known[0]
        a = self.args(op)
        pwarg = pw.encode(self.enc) if op.get("bytes") and self.nf == 2 else pw
        if self.nf == 3 and a[1] is None:
            r = self.call(ht.check_password, a[0], pwarg)
        else:
            r = self.call(ht.check_password, *a, pwarg)
        fired = self.fs.reset_fired()
        if self.io_failed(r) and fired and o["autosave"]:
            self.after_failed_autosave(o, key, "check_password")
            cur = self._peek(ht, key)
            if cur is not None and cur not in self.known and known:
                self.known[cur] = (known[0], self.default_scheme)
            return
        if stored is None:
            ctx.check(r == ("ok", None), "C16", "check-password-unknown-user", f"check_password({a}) for unknown user -> {r[:2]}")
            return
        if known is None:
            # a hash the harness did not make (external garbage, an empty field): 'no internal error' is judged, and that a user who
            # IS in the database is never reported as unknown (None is the answer for unknown users only)
            ctx.check(r != ("ok", None), "C16", "check-password-unknown-user",
                      f"user {key!r} is in the database (hash field {stored!r}) but check_password({a}) answered None")
            if r[0] == "exc" and not isinstance(r[2], (ValueError, TypeError)):
                ctx.fail("C16", "operation-raises", f"check_password on foreign record {stored!r} raised {r[1]}: {r[2]}", op="check_password", exc=r[1])
            cur = self._peek(ht, key)
            if cur is not None:
                model.recs[key] = cur
            return
        want = pw == known[0]
        scheme = known[1]
        if r[0] == "exc":
            ctx.fail("C16", "operation-raises", f"check_password({a}, {pw!r}) on a {scheme} record raised {r[1]}: {r[2]}",
                     op="check_password", exc=r[1], scheme=scheme)
        ctx.check(r[1] is want, "C16", "check-password-answer",
                  lambda: f"user {key!r} has a {scheme} hash {stored!r} of {known[0]!r}; check_password({pw!r}) -> {r[1]!r}, expected {want}",
                  scheme=scheme, want=want, context="default" if self.cfg["context"] == "default" else "custom")
        cur = self._peek(ht, key)
        if want and scheme in self.deprecated:
            # a success on a deprecated scheme stores an upgraded hash
            ctx.check(cur != stored, "C16", "deprecated-hash-not-upgraded", f"{scheme} is deprecated but {stored!r} was kept", scheme=scheme)
        if cur != stored:
            ctx.check(want, "C16", "hash-replaced-without-success", f"stored hash changed {stored!r} -> {cur!r} although the check failed")
            # the replacement must be a hash of the same password by the context's default scheme
            H = getattr(self.ph, self.default_scheme)
            with warnings.catch_warnings():
                warnings.simplefilter("ignore")
                good = H.identify(cur) and H.verify(known[0].encode(self.enc), cur)
            ctx.check(good, "C16", "upgraded-hash-wrong", f"{stored!r} -> {cur!r}: not a {self.default_scheme} hash of {known[0]!r}",
                      scheme=scheme)
            self.known[cur] = (known[0], self.default_scheme)
            model.set(key, cur)
            ctx.probe("hash_upgraded_on_check")
            self.mutate_done(o, "check_password")

    def op_query(self, op, o):
        ctx = self.ctx
        ht, model = o["ht"], o["model"]
        k = op["op"]
        ru = o.get("ru", self.cfg["return_unicode"])

        def dec_(b):
            return b.decode(self.enc) if ru else b

        if k in ("users", "realms") and ru:
            try:
                for x in model.recs:
                    for part in ((x,) if self.nf == 2 else x):
                        part.decode(self.enc)
            except UnicodeDecodeError:
                # a name in the file is not text in the configured encoding (a foreign writer cut a multi-byte character):
                # listing names as text has no defined answer; nothing is judged
                ctx.probe("undecodable_name_in_file")
                self.call(getattr(ht, k), *(() if k == "realms" or self.nf == 2 else (op.get("realm") or self.cfg["default_realm"] or "r1",)))
                return
        if k == "get_hash":
            if self.nf == 3 and op.get("realm") is None and not self.cfg["default_realm"]:
                return
            key = self.key(op["user"], op.get("realm"))
            r = self.call(ht.get_hash, *self.args(op))
            want = model.recs.get(key)
            got = r[1] if r[0] == "ok" else r
            if isinstance(got, str):
                # (text or bytes is not fixed by the statement: after a hash upgrade HtpasswdFile hands back text)
                got = got.encode(self.enc)
            ctx.check(r[0] == "ok" and got == want, "C16", "get-hash-answer", f"get_hash({self.args(op)}) -> {r[:2]}, expected {want!r}")
        elif k == "users":
            if self.nf == 2:
                r = self.call(ht.users)
                want = sorted(dec_(x) for x in model.recs)
            else:
                realm = op.get("realm")
                if realm is None and not self.cfg["default_realm"]:
                    return
                rb = self.b(realm if realm is not None else self.cfg["default_realm"])
                r = self.call(ht.users, realm)
                want = sorted(dec_(x[0]) for x in model.recs if x[1] == rb)
            ctx.check(r[0] == "ok" and sorted(r[1]) == want, "C16", "users-answer", f"users() -> {r[:2]}, expected {want}")
        elif k == "realms":
            r = self.call(ht.realms)
            want = sorted({dec_(x[1]) for x in model.recs})
            ctx.check(r[0] == "ok" and sorted(r[1]) == want, "C16", "realms-answer", f"realms() -> {r[:2]}, expected {want}")

    def op_load(self, op, o):
        ctx = self.ctx
        ht, model = o["ht"], o["model"]
        k = op["op"]
        if k == "load_string":
            data = self.materialise(op["lines"])
            arg = data
            if op.get("as_text"):
                try:
                    arg = data.decode(self.enc)
                except UnicodeDecodeError:
                    arg = data
            r = self.call(ht.load_string, arg)
            try:
                m2 = DocModel(self.nf)
                m2.load(data)
                want = "ok"
            except Malformed:
                want = "ValueError"
            got = "ok" if r[0] == "ok" else r[1]
            ctx.check(got == want, "C16", "load-outcome", f"load_string({data!r}) -> {got}, expected {want}", op=k)
            if want == "ok":
                model.recs, model.untouched = m2.recs, m2.untouched
                model.mtime_read = None  # load_string forgets the file's mtime
                ctx.nontrivial = True
            self.verify_state(o, k)
            return
        if not o["bound"]:
            r = self.call(getattr(ht, k))
            ctx.check(r[0] == "exc" and r[1] == "RuntimeError", "C16", "unbound-load", f"{k}() on an unbound object -> {r[:2]}", op=k)
            return
        data = self.fs.get(o["path"])
        armed = self.fs.armed
        mt = self.fs.mtimes.get(o["path"])
        r = self.call(getattr(ht, k))
        fired = self.fs.reset_fired()
        if "write_during_read" in fired:
            # not an error: this load saw the content (and must remember the mtime) the file had when it was opened
            fired = [f for f in fired if f != "write_during_read"]
            ctx.probe("foreign_write_during_load")
        got = "ok" if r[0] == "ok" else r[1]
        if k == "load_if_changed":
            changed = model.mtime_read is None or data is None or mt != model.mtime_read
            if not changed:
                # unchanged mtime: may legitimately report 'not changed' (same-tick writes are missed by design)
                if r == ("ok", False):
                    if data is not None:
                        try:
                            rr, _ = reader(data, self.nf)
                            if rr != model.recs:
                                ctx.probe("same_tick_write_missed")
                                ctx.fault("same_tick_write")
                        except Malformed:
                            pass
                    self.verify_state(o, k)
                    return
            else:
                ctx.check(r != ("ok", False), "C16", "changed-file-not-reloaded",
                          f"file mtime {mt} differs from the one this object last read ({model.mtime_read}) but load_if_changed() returned False")
        # a (re)load was attempted
        if data is None:
            ctx.check(got in ("FileNotFoundError", "OSError") or (fired and isinstance(r[2], OSError)), "C16", "load-outcome",
                      f"{k}() with no file -> {got}", op=k)
            self.verify_state(o, k)
            return
        if fired:
            # open/read error: exception, object state unchanged
            ctx.check(r[0] == "exc" and isinstance(r[2], OSError), "C16", "io-error-swallowed", f"{k}() under {fired} -> {r[:2]}", op=k)
            if "read_error" in fired:
                model.mtime_read = mt  # the attempt got as far as opening the file
            self.verify_state(o, k + "(io fault)")
            return
        try:
            m2 = DocModel(self.nf)
            m2.load(data)
            want = "ok"
        except Malformed:
            want = "ValueError"
        ctx.check(got == want, "C16", "load-outcome", f"{k}() of {data!r} -> {got}, expected {want}", op=k)
        model.mtime_read = mt
        if want == "ok":
            model.recs, model.untouched = m2.recs, m2.untouched
            if k == "load_if_changed":
                ctx.check(r == ("ok", True), "C16", "reload-return-value", f"load_if_changed() reloaded but returned {r[1]!r}")
            ctx.nontrivial = True
        self.verify_state(o, k)

    def op_save(self, op, o):
        ctx = self.ctx
        ht, model = o["ht"], o["model"]
        if not o["bound"]:
            r = self.call(ht.save)
            ctx.check(r[0] == "exc" and r[1] == "RuntimeError", "C16", "unbound-save", f"save() on an unbound object -> {r[:2]}")
            return
        r = self.call(ht.save)
        fired = self.fs.reset_fired()
        if fired:
            ctx.check(r[0] == "exc" and isinstance(r[2], OSError), "C16", "io-error-swallowed", f"save() under {fired} -> {r[:2]}", op="save")
            self.verify_state(o, "save(io fault)")  # memory intact; nothing is asserted about the torn file
            return
        if r[0] == "exc":
            ctx.fail("C16", "operation-raises", f"save() raised {r[1]}: {r[2]}", op="save", exc=r[1])
        self.resync_after_save(o)
        ctx.nontrivial = True

    def op_save_as(self, op, o):
        """save(path): a copy goes to another file; the object's own binding and mtime are unaffected"""
        ctx = self.ctx
        ht, model = o["ht"], o["model"]
        r = self.call(ht.save, PATH2)
        fired = self.fs.reset_fired()
        if fired:
            ctx.check(r[0] == "exc" and isinstance(r[2], OSError), "C16", "io-error-swallowed", f"save(path) under {fired} -> {r[:2]}", op="save_as")
            self.verify_state(o, "save_as(io fault)")
            return
        if r[0] == "exc":
            ctx.fail("C16", "operation-raises", f"save({PATH2!r}) raised {r[1]}: {r[2]}", op="save_as", exc=r[1])
        data = self.fs.get(PATH2)
        ctx.check(data == ht.to_string(), "C16", "saved-file-differs-from-export", lambda: f"copy {data!r} export {ht.to_string()!r}")
        self.check_text(data, model, "after-save-as", "file")
        self.verify_state(o, "save_as")
        ctx.nontrivial = True

    def op_load_from(self, op, o):
        """load(path): state replaced by another file's content (atomically), remembered mtime forgotten"""
        ctx = self.ctx
        ht, model = o["ht"], o["model"]
        data = self.fs.get(PATH2)
        r = self.call(ht.load, PATH2)
        fired = [f for f in self.fs.reset_fired() if f != "write_during_read"]
        got = "ok" if r[0] == "ok" else r[1]
        if fired:
            ctx.check(r[0] == "exc" and isinstance(r[2], OSError), "C16", "io-error-swallowed", f"load(path) under {fired} -> {r[:2]}", op="load_from")
            if "read_error" in fired:
                model.mtime_read = None
            self.verify_state(o, "load_from(io fault)")
            return
        if data is None:
            ctx.check(got == "FileNotFoundError", "C16", "load-outcome", f"load(missing file) -> {got}", op="load_from")
            self.verify_state(o, "load_from")
            return
        try:
            m2 = DocModel(self.nf)
            m2.load(data)
            want = "ok"
        except Malformed:
            want = "ValueError"
        ctx.check(got == want, "C16", "load-outcome", f"load({PATH2!r}) of {data!r} -> {got}, expected {want}", op="load_from")
        model.mtime_read = None  # an explicit path is not the bound file: the next load_if_changed must reload
        if want == "ok":
            model.recs, model.untouched = m2.recs, m2.untouched
            ctx.nontrivial = True
        self.verify_state(o, "load_from")

    def op_toggle(self, op, o):
        ht = o["ht"]
        if op["what"] == "autosave":
            if not o["bound"]:
                return
            o["autosave"] = not o["autosave"]
            ht.autosave = o["autosave"]
        else:
            o["ru"] = not o.get("ru", self.cfg["return_unicode"])
            ht.return_unicode = o["ru"]
        self.features.add("toggle-" + op["what"])
        self.verify_state(o, "toggle")

    def op_rebind(self, op, o):
        """assigning .path binds the object to another file and forgets the remembered mtime"""
        if not o["bound"]:
            return
        new = PATH2 if o["path"] == PATH else PATH
        o["ht"].path = new
        o["path"] = new
        o["model"].mtime_read = None
        self.verify_state(o, "rebind")

    def op_odd_name(self, op, o):
        """a name that is no separator / control character problem but collides with the file syntax: either it is refused
        (nothing changes), or the user is really there -- in the export too, as the independent reader sees it"""
        ctx = self.ctx
        ht = o["ht"]
        name = op["name"]
        before = ht.to_string()
        user, realm = (name, "r1") if op["which"] == "user" else ("alice9", name)
        key = self.b(user) if self.nf == 2 else (self.b(user), self.b(realm))
        if self.nf == 2:
            a = (user, "pw") if op["via"] == "set_password" else (user, "$apr1$abcdefgh$" + "x" * 22)
        else:
            a = (user, realm, "pw") if op["via"] == "set_password" else (user, realm, "0" * 32)
        was_autosave = ht.autosave
        ht.autosave = False  # (this probe is about the export; saving is exercised elsewhere)
        try:
            r = self.call(getattr(ht, op["via"]), *a)
            self.fs.reset_fired()
            if r[0] == "exc":
                ctx.check(isinstance(r[2], ValueError), "C16", "odd-name-raises", f"{op['via']}{a!r} -> {r[:2]}")
                ctx.check(ht.to_string() == before, "C16", "refused-call-changed-state", f"{op['via']}{a!r} changed the database")
                return
            out = ht.to_string()
            try:
                recs, count = reader(out if isinstance(out, bytes) else out.encode(self.enc), self.nf)
            except Malformed as e:
                ctx.fail("C16", "export-unparseable", f"after {op['via']}{a!r}: {e}")
            ctx.check(count.get(key) == 1, "C16", "accepted-user-missing-from-export",
                      lambda: f"{op['via']}{a!r} was accepted, but the exported text does not contain that user (independent reader: {sorted(recs)[:6]})",
                      name_class="comment-like" if name.lstrip().startswith("#") else "other")
            d = self.call(ht.delete, *a[:self.nf - 1])
            ctx.check(d == ("ok", True) and ht.to_string() == before, "C16", "odd-name-not-deleted", f"delete{a[:self.nf - 1]!r} -> {d[:2]}")
        finally:
            ht.autosave = was_autosave
        ctx.nontrivial = True

    def op_bad_name(self, op, o):
        ctx = self.ctx
        ht = o["ht"]
        m = op["method"]
        name = op["name"]
        if not name.isascii() and self.enc != "utf-8":
            return  # (the over-long multi-byte name is only over-long in a multi-byte encoding)
        if self.nf == 2 and (op["which"] == "realm" or m == "delete_realm"):
            return
        if m == "users" and self.nf == 2:
            return
        before = ht.to_string()
        if op["which"] == "default_realm":
            # the invalid realm is the file's configured default, used by calls that leave the realm out (or pass None)
            if m in ("users", "delete_realm") and False:
                return
            old_default = ht.default_realm
            ht.default_realm = name
            try:
                calls = {"set_password": (ht.set_password, ("alice", "pw")), "set_hash": (ht.set_hash, ("alice", "0" * 32)),
                         "delete": (ht.delete, ("alice",)), "get_hash": (ht.get_hash, ("alice",)), "check_password": (ht.check_password, ("alice", "pw")),
                         "users": (ht.users, ()), "delete_realm": (ht.delete_realm, (None,))}
                fn, a = calls[m]
                r = self.call(fn, *a)
                self.fs.reset_fired()
                ctx.check(r[0] == "exc" and isinstance(r[2], ValueError), "C16", "invalid-name-not-refused",
                          f"{m}{a!r} with default_realm={name!r} -> {r[:2]}", method=m, which="default_realm")
                ctx.check(ht.to_string() == before, "C16", "refused-call-changed-state", f"{m}{a!r} with default_realm={name!r} changed the database")
            finally:
                ht.default_realm = old_default
            return
        user, realm = ("alice", name) if op["which"] == "realm" else (name, "r1")
        if self.nf == 2:
            a = {"set_password": (user, "pw"), "set_hash": (user, "x"), "delete": (user,), "get_hash": (user,),
                 "check_password": (user, "pw")}[m]
        else:
            a = {"set_password": (user, realm, "pw"), "set_hash": (user, realm, "0" * 32), "delete": (user, realm), "get_hash": (user, realm),
                 "check_password": (user, realm, "pw"), "users": (realm,), "delete_realm": (realm,)}[m]
            if m in ("users", "delete_realm") and op["which"] != "realm":
                return
        r = self.call(getattr(ht, m), *a)
        self.fs.reset_fired()
        ctx.check(r[0] == "exc" and isinstance(r[2], ValueError), "C16", "invalid-name-not-refused",
                  f"{m}{a!r} -> {r[:2]}", method=m)
        ctx.check(ht.to_string() == before, "C16", "refused-call-changed-state", f"{m}{a!r} changed the database")

    def op_external(self, op):
        ctx = self.ctx
        data = self.fs.get(PATH)
        kind = op["kind"]
        ctx.fault("external_edit")
        if kind == "delete_file":
            if data is not None and self.ctx.n_ops % 5 == 0:
                del self.fs.files[PATH]
                self.fs.mtimes.pop(PATH, None)
            return
        if data is None:
            data = b""
        lines = data.splitlines(keepends=True)
        p = op["pos"]
        if kind == "append_rec":
            new = self.materialise([dict(op["line"], k="rec") if op["line"]["k"] in ("rec", "dup") else op["line"]])
            data = data + new
        elif kind == "remove_line" and lines:
            del lines[p % len(lines)]
            data = b"".join(lines)
        elif kind == "swap_lines" and len(lines) > 1:
            i = p % (len(lines) - 1)
            lines[i], lines[i + 1] = lines[i + 1], lines[i]
            if not lines[i].endswith(b"\n"):
                lines[i] += b"\n"
            data = b"".join(lines)
        elif kind == "add_comment":
            lines.insert(p % (len(lines) + 1), b"# edited\n")
            data = b"".join(lines)
        elif kind == "add_blank":
            lines.insert(p % (len(lines) + 1), b"\n")
            data = b"".join(lines)
        elif kind == "dup_line" and lines:
            ln = lines[p % len(lines)]
            data = data + (b"" if data.endswith(b"\n") or not data else b"\n") + ln
        elif kind == "malformed":
            data = data + (b"" if data.endswith(b"\n") or not data else b"\n") + b"broken line without separator\n"
            ctx.fault("malformed_external_edit")
        elif kind == "crlf":
            data = data.replace(b"\r\n", b"\n").replace(b"\n", b"\r\n")
        elif kind == "strip_final_newline":
            data = data.rstrip(b"\r\n")
        elif kind == "replace_all":
            data = self.materialise([op["line"]])
        elif kind == "truncate_file":
            data = data[: p % (len(data) + 1)]
        self.fs.put(PATH, data)

    def finish(self):
        keys = sorted(repr(k) for k in self.objs[0]["model"].recs)
        self.ctx.key(self.cfg["cls"], sorted(self.features), sorted(self.opkinds.items()), sorted(self.ctx.faults), keys)


def execute(program, ctx):
    cfg = program["cfg"]
    w = _W(cfg, ctx)
    for op in program["ops"]:
        ctx.op()
        k = op["op"]
        w.opkinds[k] = w.opkinds.get(k, 0) + 1
        o = w.objs[op["o"] % len(w.objs)] if "o" in op else None
        ctx.log("op", k, op.get("o"), op.get("user"), op.get("realm"))
        if k in ("set_password", "set_hash"):
            w.op_set(op, o)
        elif k == "delete":
            w.op_delete(op, o)
        elif k == "delete_realm":
            if w.nf == 3:
                w.op_delete_realm(op, o)
        elif k == "check_password":
            w.op_check(op, o)
        elif k in ("get_hash", "users", "realms"):
            if not (k == "realms" and w.nf == 2):
                w.op_query(op, o)
        elif k in ("load", "load_string", "load_if_changed"):
            w.op_load(op, o)
        elif k == "save":
            w.op_save(op, o)
        elif k == "save_as":
            w.op_save_as(op, o)
        elif k == "load_from":
            w.op_load_from(op, o)
        elif k == "rebind":
            w.op_rebind(op, o)
        elif k == "toggle":
            w.op_toggle(op, o)
        elif k == "tick":
            w.fs.tick(op["dt"])
            ctx.sim_time += abs(op["dt"])
            if op["dt"] < 0:
                ctx.fault("clock_step_back")
        elif k == "bad_name":
            w.op_bad_name(op, o)
        elif k == "odd_name":
            w.op_odd_name(op, o)
        elif k == "external_edit":
            w.op_external(op)
        elif k == "io_fault":
            e = getattr(errno, op["errno"])
            if op["kind"] == "open_error":
                w.fs.armed = {"kind": "open_error", "errno": e}
            elif op["kind"] == "read_error":
                w.fs.armed = {"kind": "read_error", "after": op["after"]}
            elif op["kind"] == "write_during_read":
                def action(w=w, op=op):
                    w.fs.tick(op["dt"])
                    ctx.sim_time += op["dt"]
                    w.op_external(op["edit"])
                w.fs.armed = {"kind": "write_during_read", "after": op["after"], "action": action}
            else:
                w.fs.armed = {"kind": "write_error", "after": op["after"], "errno": errno.ENOSPC if op["errno"] == "ENOSPC" else errno.EIO}
    w.finish()


def prepare(prop, tier):
    import passlib.apache  # noqa: F401
    import passlib.hash

    for s in set(DEFAULT_CTX_SCHEMES + CUSTOM_SCHEMES + ["htdigest"]):
        getattr(passlib.hash, s)
