"""world `entropy` -- property C06 (DESIGN.md section 4; weaker fit, stated there).

The one process-wide SystemRandom object every generator in passlib draws from (and the `secrets`
source of libpass) is replaced by a recording / scripted source. A run sees both sides of every
generated value: what was requested from the source and what came out of the API.

  * size and alphabet of every produced value
  * conditional bijection: if the recorded draws span exactly the declared value space, uniformity is
    equivalent to injectivity -- checked over the run's sample, by a fault injected at the source
    (one bit of a recorded answer flipped: the value must change), and exhaustively over ALL draws when
    the space is <= 2^16 (reported as exhaustive enumeration of that sub-case)
  * otherwise seeded statistics with a fixed false-alarm bound (7-sigma cells)
  * requested entropy of generated passwords / phrases is carried by the draws
  * extreme sources (all-zero, all-one, counter, single bit) never produce a malformed value
  * a CryptContext never lets a configuration pin a salt
"""

from __future__ import annotations

import math
import warnings

from simkit.refmodels.extract import extract
from simkit.refmodels.known_hashes import MIN_COST
from simkit.seams import SimRandom

NAME = "entropy"
RULE = {
    "C06": "one run = one generator API x parameters x source mode, called 50-3000 times: getrandbytes / getrandstr (n 1-64, alphabets of 2-94 "
           "symbols, text and bytes), salts of every salted palette hasher x admissible salt_size (read back by the field extractor), TOTP.new "
           "sizes, generate_secret, genword / genphrase (entropy / length / charset / wordset), django_disabled suffix, libpass salts, and "
           "attempts to pin a salt through a CryptContext; source modes stream / zeros / ones / counter / single-bit / scripted; "
           "non-trivial = >=1 produced value judged against its recorded draws; distinct = distinct (API, size, alphabet size, source mode, "
           "which of {bijection-sample, bit-flip, exhaustive, statistics} ran)",
}
FAULT_KINDS = {"C06": ["source_zeros", "source_ones", "source_counter", "source_single_bit", "source_bit_flip", "source_scripted_exhaustive", "wordset_overwritten_with_duplicates"]}
COMPONENTS = {
    "real": ["passlib.utils.getrandbytes / getrandstr / generate_password", "salt generation of every palette hasher (HasSalt / HasRawSalt / bcrypt repair)",
             "passlib.totp.TOTP.new / generate_secret", "passlib.pwd.genword / genphrase", "passlib.handlers.django.django_disabled",
             "libpass._salt.generate_salt*", "salts of libpass.hashers SHA256/SHA512/PBKDF2 hashers", "CryptContext's refusal of salt options", "random.Random's derived methods (randrange, choice) on top of the owned source"],
    "stub": ["the random source itself: passlib.utils.rng.getrandbits/_randbelow and secrets._sysrand (SimRandom: recording, scripted, extreme modes)"],
    "unavailable": ["AppWallet salts (need the 'cryptography' package)"],
}
ASSUMPTIONS = {"*": ["uniformity is judged relative to the owned source: given uniform draws, a value is uniform iff the draw->value map is injective "
                     "when draw space and value space have the same size", "statistical cells use a 7-sigma bound (p < 3e-12 per cell)"]}

H64 = "./0123456789ABCDEFGHIJKLMNOPQRSTUVWXYZabcdefghijklmnopqrstuvwxyz"
SALT_HASHERS = {  # name -> (kind, sizes, alphabet or None for raw bytes)
    "md5_crypt": ("chars", [1, 2, 4, 8], H64), "apr_md5_crypt": ("chars", [2, 8], H64), "sha256_crypt": ("chars", [1, 4, 8, 16], H64),
    "sha512_crypt": ("chars", [2, 16], H64), "sha1_crypt": ("chars", [1, 8, 64], H64), "pbkdf2_sha256": ("bytes", [1, 2, 8, 16, 32, 128, 1024], None),
    "pbkdf2_sha1": ("bytes", [2, 16], None), "ldap_salted_sha1": ("bytes", [4, 8, 16], None), "django_salted_sha1": ("chars", [2, 12], None),
    "django_pbkdf2_sha256": ("chars", [2, 12], None), "scrypt": ("bytes", [1, 2, 16], None), "des_crypt": ("chars", [2], H64),
    "bsdi_crypt": ("chars", [4], H64), "phpass": ("chars", [8], H64), "bcrypt": ("bcrypt", [22], None),
}
# every other registered handler whose hash() draws randomness (salt read back through the handler's own parser; the
# alphabet is the one the handler declares unless given here); "int16": cisco_type7's salt is an integer 0..15
SALT_ANY = {
    "bigcrypt": ("chars", [2], H64), "crypt16": ("chars", [2], H64), "ldap_des_crypt": ("chars", [2], H64), "ldap_bsdi_crypt": ("chars", [4], H64),
    "ldap_md5_crypt": ("chars", [1, 8], H64), "ldap_sha1_crypt": ("chars", [1, 8, 64], H64), "ldap_sha256_crypt": ("chars", [1, 16], H64),
    "ldap_sha512_crypt": ("chars", [2, 16], H64), "sun_md5_crypt": ("chars", [1, 8, 20], H64), "dlitz_pbkdf2_sha1": ("chars", [1, 16, 40], H64),
    "django_des_crypt": ("chars", [2], H64), "django_pbkdf2_sha1": ("chars", [1, 12, 30], None), "django_salted_md5": ("chars", [1, 12], None),
    "oracle11": ("chars", [20], "0123456789ABCDEF"), "atlassian_pbkdf2_sha1": ("bytes", [16], None), "cta_pbkdf2_sha1": ("bytes", [1, 16, 40], None),
    "fshp": ("bytes", [1, 16, 32], None), "grub_pbkdf2_sha512": ("bytes", [1, 64], None), "ldap_pbkdf2_sha1": ("bytes", [2, 16], None),
    "ldap_pbkdf2_sha256": ("bytes", [2, 16], None), "ldap_pbkdf2_sha512": ("bytes", [2, 16], None), "ldap_salted_md5": ("bytes", [4, 16], None),
    "ldap_salted_sha256": ("bytes", [4, 8, 16], None), "ldap_salted_sha512": ("bytes", [4, 8, 16], None), "mssql2000": ("bytes", [4], None),
    "mssql2005": ("bytes", [4], None), "pbkdf2_sha512": ("bytes", [1, 16], None), "scram": ("bytes", [1, 12, 32], None),
    "bcrypt_sha256": ("bcrypt", [22], None), "django_bcrypt": ("bcrypt", [22], None), "django_bcrypt_sha256": ("bcrypt", [22], None),
    "ldap_bcrypt": ("bcrypt", [22], None), "cisco_type7": ("int16", [1], None),
}
ALPHABETS = ["01", "abc", "abcde", "0123456789", "0123456789abcdef", H64, "".join(chr(c) for c in range(33, 127)), "xy", "ACGT",
             "abcdefghijklmnopqrstuvwxyz", "éßü漢字"]


# ---------------------------------------------------------------------------------------------
# generation
# ---------------------------------------------------------------------------------------------
def generate(rng, prop, tier):
    api = rng.choices(["getrandbytes", "getrandstr", "salt", "totp_new", "generate_secret", "genword", "genphrase", "django_disabled",
                       "libpass_salt", "ctx_pin_salt", "generate_password", "libpass_hasher_salt", "salt_any", "django_wrapper",
                       "app_handler_salt"],
                      [16, 16, 16, 5, 4, 8, 6, 3, 5, 6, 2, 5, 18, 3, 3])[0]
    mode = rng.choices(["stream", "zeros", "ones", "counter", "single_bit"], [70, 8, 8, 8, 6])[0]
    p = {}
    if api == "getrandbytes":
        p["n"] = rng.choice([1, 2, 2, 3, 4, 8, 16, 20, 32, 64, rng.randint(1, 64), 65, 128, 200, 1024])  # (also beyond one 64-byte block)
    elif api == "getrandstr":
        cs = rng.choice(ALPHABETS)
        p["charset"] = cs
        p["as_bytes"] = rng.random() < 0.3 and cs.isascii()
        p["n"] = rng.choice([1, 2, 3, 4, 8, 16, 22, 64, rng.randint(1, 64)])
    elif api == "salt":
        h = rng.choice(sorted(SALT_HASHERS))
        p["hasher"] = h
        p["size"] = rng.choice(SALT_HASHERS[h][1])
    elif api == "salt_any":
        h = rng.choice(sorted(SALT_ANY))
        p["hasher"] = h
        p["size"] = rng.choice(SALT_ANY[h][1])
    elif api == "app_handler_salt":
        # an application's own handler on the library's framework: accepts a wide salt alphabet when parsing, declares a
        # narrower one for the salts it generates (the documented use of default_salt_chars)
        p["size"] = rng.choice([1, 4, 8, 16])
        p["gen_alphabet"] = rng.choice(["abcdefghijklmnopqrstuvwxyz", "0123456789", "abcdef", "xy"])
        p["via"] = rng.choice(["hash", "using", "context", "genconfig_like"])
    elif api == "django_wrapper":
        # the Django-hasher adapter passlib.ext.django hands out for a passlib scheme: salts of encode() without / with the
        # "generate one" marker, after a history that may include a call with an explicit salt
        p["hasher"] = rng.choice(["sha256_crypt", "md5_crypt", "sha512_crypt", "pbkdf2_sha256"])
        p["explicit_first"] = rng.random() < 0.6
        p["marker"] = rng.random() < 0.5
    elif api == "totp_new":
        p["size"] = rng.choice([10, 16, 20, 20, 32, 64])
        p["alg"] = "sha1" if p["size"] <= 20 else "sha256" if p["size"] <= 32 else "sha512"
        if rng.random() < 0.4:
            # the DEFAULT size (the digest size of the algorithm in use) on a factory with its own default algorithm, after that
            # factory has loaded somebody's existing key of another algorithm: history on the class must not leak into new keys
            p["size"] = None
            p["alg"] = rng.choice(["sha1", "sha256", "sha512"])
            p["history_alg"] = rng.choice([None, "sha1", "sha256", "sha512"])
            p["explicit_alg"] = rng.random() < 0.3
    elif api == "generate_secret":
        p["entropy"] = rng.choice([1, 8, 64, 128, 256])
        p["charset"] = rng.choice([None, None, "0123456789abcdef", "01", "0123456789", "abcdefghijklmnopqrstuvwxyz"])
    elif api == "genword":
        p["entropy"] = rng.choice([None, None, 8, 48, 64, 100])
        p["length"] = rng.choice([None, None, 1, 4, 12, 30])
        p["charset"] = rng.choice([None, "ascii_72", "ascii_62", "ascii_50", "hex"])
        p["chars"] = rng.choice([None, None, "abc", "01", "αβγδ", "éßü漢字"]) if p["charset"] is None else None
        p["chars_bytes"] = bool(p["chars"]) and rng.random() < 0.4  # the alphabet handed over as UTF-8 bytes
    elif api == "genphrase":
        p["entropy"] = rng.choice([None, None, 20, 48, 64])
        p["length"] = rng.choice([None, None, 1, 3, 8])
        p["wordset"] = rng.choice([None, "eff_long", "eff_short", "eff_prefixed", "bip39"])
        p["words"] = rng.choice([None, None, ["alpha", "beta", "gamma", "delta", "epsilon"]]) if p["wordset"] is None else None
        if rng.random() < 0.25:
            # history on the public wordset registry: a custom set is registered and used, then the same name is overwritten
            pool = ["red", "green", "blue", "cyan", "pink", "grey", "gold", "teal", "plum", "lime"]
            first = rng.sample(pool, rng.choice([2, 4, 8]))
            second = rng.sample(pool, rng.choice([2, 4, 8]))
            if rng.random() < 0.5:
                second = second + [second[0]] * rng.choice([1, 2, 6])  # duplicates: must be refused, not silently under-deliver entropy
                rng.shuffle(second)
            p["registry"] = {"name": rng.choice(["custom", "team-words"]), "first": first, "second": second}
            p["wordset"], p["words"] = p["registry"]["name"], None
    elif api == "libpass_salt":
        p["length"] = rng.choice([1, 1, 2, 8, 16, 22])
        p["by_entropy"] = rng.random() < 0.3
    elif api == "libpass_hasher_salt":
        p["hasher"] = rng.choice(["sha256", "sha512", "pbkdf2_sha256", "pbkdf2_sha512"])
        p["bits"] = rng.choice([6, 12, 64, 128]) if p["hasher"].startswith("pbkdf2") else None
    elif api == "ctx_pin_salt":
        p["form"] = rng.choice(["ctor", "update", "load_update", "ini", "category", "all"])
        p["hasher"] = rng.choice(["md5_crypt", "sha256_crypt", "pbkdf2_sha256", "bcrypt", "ldap_salted_sha1"])
    elif api == "generate_password":
        p["size"] = rng.choice([1, 4, 10, 20])
    reps = rng.choice([50, 200, 600]) if api in ("salt", "salt_any", "django_wrapper", "totp_new", "genphrase", "django_disabled", "libpass_hasher_salt", "app_handler_salt") else rng.choice([200, 1000, 3000])
    return {"cfg": {"api": api, "params": p, "mode": mode, "reps": reps, "seed": rng.getrandbits(32),
                    "exhaustive": rng.random() < (0.5 if tier == "thorough" else 0.15), "flips": rng.randint(4, 24)}, "ops": []}


# ---------------------------------------------------------------------------------------------
# execution
# ---------------------------------------------------------------------------------------------
class _Gen:
    """one generator API bound to its parameters: call() -> value (a sequence of symbols); knows its declared space"""

    def __init__(self, cfg, src):
        import passlib.hash
        import passlib.utils as pu

        self.api = cfg["api"]
        self.p = cfg["params"]
        self.src = src
        self.pu = pu
        self.ph = passlib.hash
        p = self.p
        a = self.api
        self.alphabet = None  # list of symbols (ints for bytes) or None = all 256 byte values
        self.n = None
        if a == "getrandbytes":
            self.n = p["n"]
            self.call = lambda: pu.getrandbytes(pu.rng, p["n"])
        elif a == "getrandstr":
            cs = p["charset"].encode("ascii") if p.get("as_bytes") else p["charset"]
            self.alphabet = list(cs)
            self.n = p["n"]
            self.call = lambda: pu.getrandstr(pu.rng, cs, p["n"])
        elif a == "generate_password":
            self.alphabet = list("2346789ABCDEFGHJKMNPQRTUVWXYZabcdefghjkmnpqrstuvwxyz")
            self.n = p["size"]
            self.call = lambda: pu.generate_password(p["size"])
        elif a == "salt":
            h = p["hasher"]
            kind, sizes, alpha = SALT_HASHERS[h]
            H = getattr(passlib.hash, h)
            kw = {}
            if MIN_COST.get(h) is not None:
                kw["rounds"] = MIN_COST[h]
            if kind != "bcrypt" and len(sizes) > 1:
                kw["salt_size"] = p["size"]
            Hc = H.using(**kw)
            self.n = p["size"]
            self.kind = kind
            if kind == "chars":
                self.alphabet = list(alpha if alpha else H.salt_chars)
            self.hname = h

            def call():
                s = Hc.hash("pw")
                ex = extract(s, only=(h,))
                if ex is None:
                    raise RuntimeError(f"extractor cannot read {s!r}")
                return ex[2]

            if kind == "bcrypt":
                def call():  # noqa: F811
                    s = Hc.hash("pw")
                    return s[7:29]

                self.alphabet = list("./ABCDEFGHIJKLMNOPQRSTUVWXYZabcdefghijklmnopqrstuvwxyz0123456789")
            self.call = call
        elif a == "django_wrapper":
            from django.conf import settings

            if not settings.configured:
                settings.configure()
            from passlib.ext.django.utils import DjangoTranslator

            h = p["hasher"]
            H = getattr(passlib.hash, h)
            Hc = H.using(rounds=MIN_COST[h]) if MIN_COST.get(h) is not None else H
            w = DjangoTranslator().passlib_to_django(Hc)
            kind, sizes, alpha = SALT_HASHERS[h]
            self.kind = kind
            self.hname = h
            self.n = H.default_salt_size
            if kind == "chars":
                self.alphabet = list(alpha)
            if p["explicit_first"]:
                # history on the shared adapter object: one caller fixed the salt for ITS hash
                w.encode("pw", "abcdefgh" if kind == "chars" else b"abcdefgh")

            def call():
                s = w.encode("pw", w.salt()) if p["marker"] else w.encode("pw")
                ex = extract(s, only=(h,))
                if ex is None:
                    raise RuntimeError(f"extractor cannot read {s!r}")
                return ex[2]

            self.call = call
        elif a == "salt_any":
            h = p["hasher"]
            kind, sizes, alpha = SALT_ANY[h]
            H = getattr(passlib.hash, h)
            kw = {}
            if MIN_COST.get(h) is not None:
                kw["rounds"] = MIN_COST[h]
            elif getattr(H, "min_rounds", None) is not None:
                kw["rounds"] = max(H.min_rounds, 1)
            if len(sizes) > 1:
                kw["salt_size"] = p["size"]
            Hc = H.using(**kw) if kw else H
            ckw = {k: "u" for k in getattr(H, "context_kwds", ()) if k in ("user", "realm")}
            self.n = p["size"]
            self.kind = kind
            self.hname = h
            parser = getattr(H, "wrapped", H)
            if kind == "chars":
                self.alphabet = list(alpha if alpha else H.salt_chars)
            elif kind == "bcrypt":
                self.alphabet = list("./ABCDEFGHIJKLMNOPQRSTUVWXYZabcdefghijklmnopqrstuvwxyz0123456789")
            elif kind == "int16":
                self.alphabet = list(range(16))

            def call():
                s = Hc.hash("pw", **ckw)
                if kind == "int16":
                    return [int(s[:2])]  # the salt is the first two decimal digits of a type-7 string
                if parser is not H:
                    s = H._unwrap_hash(s)
                return parser.from_string(s).salt

            self.call = call
        elif a == "totp_new":
            from passlib.totp import TOTP

            if p["size"] is None:
                import warnings as _w

                F = TOTP.using(alg=p["alg"])
                if p.get("history_alg"):
                    with _w.catch_warnings():
                        _w.simplefilter("ignore")
                        F.from_source(TOTP(key=b"0123456789abcdefghij", format="raw", alg=p["history_alg"], label="u").to_uri())
                        F(key=b"0123456789abcdefghij", format="raw", alg=p["history_alg"])
                self.n = {"sha1": 20, "sha256": 32, "sha512": 64}[p["alg"]]
                self.call = (lambda: F.new(alg=p["alg"]).key) if p.get("explicit_alg") else (lambda: F.new().key)
            else:
                self.n = p["size"]
                self.call = lambda: TOTP.new(size=p["size"], alg=p["alg"]).key
        elif a == "generate_secret":
            from passlib.totp import generate_secret

            cs = p.get("charset") or "ABCDEFGHIJKLMNOPQRSTUVWXYZabcdefghijklmnopqrstuvwxyz0123456789"
            self.alphabet = list(cs)
            self.n = int(math.ceil(p["entropy"] * math.log(2, len(cs))))
            self.requested = p["entropy"]
            self.call = (lambda: generate_secret(p["entropy"], charset=cs)) if p.get("charset") else (lambda: generate_secret(p["entropy"]))
        elif a == "genword":
            from passlib import pwd

            kw = {k: v for k, v in (("entropy", p["entropy"]), ("length", p["length"]), ("charset", p["charset"]), ("chars", p["chars"])) if v is not None}
            if p.get("chars_bytes") and "chars" in kw:
                kw["chars"] = kw["chars"].encode("utf-8")
            gen = pwd.WordGenerator(**kw)
            self.alphabet = list(gen.chars)
            self.n = gen.length
            self.requested = p["entropy"]
            self.call = lambda: pwd.genword(**kw)
        elif a == "genphrase":
            from passlib import pwd

            kw = {k: v for k, v in (("entropy", p["entropy"]), ("length", p["length"]), ("wordset", p["wordset"]), ("words", p["words"])) if v is not None}
            reg = p.get("registry")
            if reg:
                pwd.default_wordsets[reg["name"]] = list(reg["first"])
                pwd.genphrase(**kw)  # the name has been used once with its first contents
                pwd.default_wordsets[reg["name"]] = list(reg["second"])
                self.dup_words = len(set(reg["second"])) != len(reg["second"])
                if self.dup_words:
                    # a word list with duplicates cannot give uniform phrases of the computed entropy: it must be refused
                    try:
                        pwd.PhraseGenerator(**kw)
                        self.dup_outcome = "accepted"
                    except ValueError:
                        self.dup_outcome = "refused"
                    self.call = None
                    return
            gen = pwd.PhraseGenerator(**kw)
            self.words = list(gen.words)
            self.n = gen.length
            self.requested = p["entropy"]
            self.sep = gen.sep
            self.alphabet = self.words
            windex = {w: i for i, w in enumerate(self.words)}

            def call():
                s = pwd.genphrase(**kw)
                parts = s.split(self.sep) if self.sep else [s]
                return parts

            self.call = call
        elif a == "django_disabled":
            H = passlib.hash.django_disabled
            self.alphabet = list("ABCDEFGHIJKLMNOPQRSTUVWXYZabcdefghijklmnopqrstuvwxyz0123456789")
            self.n = 40
            self.call = lambda: H.hash("x")[1:]
        elif a == "app_handler_salt":
            import hashlib

            import passlib.utils.handlers as uh
            from passlib.context import CryptContext

            class appsalted(uh.HasSalt, uh.GenericHandler):
                name = "appsalted"
                setting_kwds = ("salt", "salt_size")
                ident = "$app$"
                checksum_chars = uh.LOWER_HEX_CHARS
                checksum_size = 40
                min_salt_size = 1
                max_salt_size = 16
                default_salt_size = 8 if p["via"] == "using" else p["size"]
                salt_chars = uh.HASH64_CHARS
                default_salt_chars = p["gen_alphabet"]

                @classmethod
                def from_string(cls, hash):
                    salt, chk = uh.parse_mc2(hash, cls.ident, handler=cls)
                    return cls(salt=salt, checksum=chk)

                def to_string(self):
                    return uh.render_mc2(self.ident, self.salt, self.checksum)

                def _calc_checksum(self, secret):
                    if isinstance(secret, str):
                        secret = secret.encode("utf-8")
                    return hashlib.sha1(self.salt.encode("ascii") + secret).hexdigest()

            self.kind = "chars"
            self.hname = "appsalted"
            self.n = p["size"]
            self.alphabet = list(p["gen_alphabet"])
            if p["via"] == "using":
                Hc = appsalted.using(salt_size=p["size"])
                fn = lambda: Hc.hash("pw")
            elif p["via"] == "context":
                cc = CryptContext([appsalted])
                fn = lambda: cc.hash("pw")
            elif p["via"] == "genconfig_like":
                fn = lambda: appsalted.using().hash("")
            else:
                fn = lambda: appsalted.hash("pw")
            self.call = lambda: appsalted.from_string(fn()).salt
        elif a == "libpass_hasher_salt":
            import string

            from libpass.hashers.pbkdf2 import PBKDF2SHA256Handler, PBKDF2SHA512Handler
            from libpass.hashers.sha_crypt import SHA256Hasher, SHA512Hasher

            h = p["hasher"]
            if h.startswith("pbkdf2"):
                Hc = (PBKDF2SHA256Handler if h == "pbkdf2_sha256" else PBKDF2SHA512Handler)(rounds=1, salt_entropy_bits=p["bits"])
                self.alphabet = list(string.ascii_letters + string.digits)
                self.n = math.ceil(p["bits"] / math.log2(62))
                name = h

                def call():
                    ex = extract(Hc.hash("pw"), only=(name,))
                    if ex is None:
                        raise RuntimeError("extractor cannot read a libpass pbkdf2 hash")
                    return ex[2].decode("ascii")
            else:
                Hc = (SHA256Hasher if h == "sha256" else SHA512Hasher)(rounds=1000)
                self.alphabet = list(H64)
                self.n = 16
                name = h + "_crypt"

                def call():
                    ex = extract(Hc.hash("pw"), only=(name,))
                    if ex is None:
                        raise RuntimeError("extractor cannot read a libpass sha-crypt hash")
                    return ex[2]
            self.call = call
        elif a == "libpass_salt":
            import string

            from libpass import _salt

            self.alphabet = list(string.ascii_letters + string.digits)
            if p["by_entropy"]:
                bits = p["length"] * 6
                self.n = math.ceil(bits / math.log2(62))
                self.call = lambda: _salt.generate_salt_by_entropy(bits)
            else:
                self.n = p["length"]
                self.call = lambda: _salt.generate_salt(p["length"])

    def space(self):
        """size of the declared value space"""
        if getattr(self, "kind", "") == "bcrypt":
            return 2 ** 128
        if self.alphabet is None:
            return 256 ** self.n
        return len(self.alphabet) ** self.n


def _draw_space(record):
    s = 1
    for kind, rng_, _ in record:
        s *= (1 << rng_) if kind == "getrandbits" else rng_
    return s


def _symbols(v):
    """value -> list of hashable symbols"""
    if isinstance(v, (bytes, bytearray)):
        return list(v)
    return list(v)


def execute(program, ctx):
    cfg = program["cfg"]
    api = cfg["api"]
    src = SimRandom(cfg["seed"], ctx).install().install_secrets()
    ctx.op(cfg["reps"])
    if api == "ctx_pin_salt":
        return _pin_salt(cfg, ctx, src)
    with warnings.catch_warnings():
        warnings.simplefilter("ignore")
        try:
            g = _Gen(cfg, src)
        except Exception as e:
            ctx.fail("C06", "generator-setup-raises", f"{api} {cfg['params']}: {type(e).__name__}: {e}", api=api, exc=type(e).__name__)
        if g.call is None and getattr(g, "dup_words", False):
            ctx.fault("wordset_overwritten_with_duplicates")
            ctx.check(g.dup_outcome == "refused", "C06", "duplicate-words-accepted",
                      f"genphrase {cfg['params']}: the registered word set was overwritten by a list with duplicates and accepted: phrases are "
                      f"not uniform and carry less than the computed entropy", api=api)
            ctx.nontrivial = True
            ctx.key(api, "registry-duplicates", g.dup_outcome)
            return
        _run(cfg, ctx, src, g)


def _one(ctx, src, g, what):
    src.record = []
    src.recording = True
    try:
        with warnings.catch_warnings():
            warnings.simplefilter("ignore")
            v = g.call()
    except Exception as e:
        src.recording = False
        ctx.fail("C06", "generator-raises", f"{g.api} {g.p} under source mode {src.mode} ({what}): {type(e).__name__}: {e}", api=g.api,
                 exc=type(e).__name__, mode=src.mode)
    src.recording = False
    return v, list(src.record)


def _check_shape(ctx, g, v, mode):
    syms = _symbols(v)
    ok_len = len(syms) == g.n
    ctx.check(ok_len, "C06", "wrong-size", lambda: f"{g.api} {g.p}: value {v!r} has {len(syms)} symbols, declared {g.n} (source {mode})", api=g.api)
    if g.alphabet is not None:
        alpha = set(g.alphabet)
        bad = [s for s in syms if s not in alpha]
        ctx.check(not bad, "C06", "symbol-outside-alphabet", lambda: f"{g.api} {g.p}: {v!r} contains {bad[:3]} (source {mode})", api=g.api)
    if getattr(g, "kind", "") == "bcrypt":
        ctx.check(syms[-1] in ".Oeu", "C06", "symbol-outside-alphabet", f"bcrypt salt {v!r}: last character has padding bits set", api=g.api)


SLOW_SALT = ("sun_md5_crypt", "atlassian_pbkdf2_sha1")  # 4096 base rounds / fixed 10000 rounds: 5-30 ms per hash


def _reps(cfg, g):
    """sample size; hashers whose cheapest hash still costs tens of milliseconds get a small one (a fixed rule, not a measurement)"""
    return min(cfg["reps"], 60) if getattr(g, "hname", "") in SLOW_SALT else cfg["reps"]


def _run(cfg, ctx, src, g):
    mode = cfg["mode"]
    api = g.api
    S = g.space()
    ran = set()
    # ---- extreme sources: never a malformed value, never an exception -----------------------------------------
    if mode != "stream":
        src.mode = mode
        ctx.fault("source_" + mode)
        for _ in range(min(_reps(cfg, g), 100)):
            v, rec = _one(ctx, src, g, "extreme source")
            _check_shape(ctx, g, v, mode)
        ctx.nontrivial = True
        ctx.key(api, g.n, len(g.alphabet) if g.alphabet else 256, mode, "extreme")
        return
    # ---- stream source --------------------------------------------------------------------------------------------
    src.mode = "stream"
    seen = {}  # value -> draws
    values = []
    bij = None
    for i in range(_reps(cfg, g)):
        v, rec = _one(ctx, src, g, "stream")
        _check_shape(ctx, g, v, "stream")
        key = tuple(_symbols(v))
        draws = tuple((k, r, a) for k, r, a in rec)
        if bij is None:
            sd_ = _draw_space(rec)
            # every value of the declared space must be reachable: fewer draws than values cannot do that
            ctx.check(not rec or sd_ >= S, "C06", "draws-cannot-cover-declared-space",
                      lambda: f"{api} {g.p}: one value consumes draws {[(k, r) for k, r, _ in rec]} = {sd_.bit_length() - 1} bits, "
                              f"the declared space has {S.bit_length() - 1} bits", api=api)
            bij = sd_ == S and len(rec) > 0
        if bij:
            # same size of draw space and value space: uniform <=> injective
            if key in seen and seen[key] != draws:
                ctx.fail("C06", "two-draws-one-value",
                         f"{api} {g.p}: draws {seen[key]} and {draws} both produce {v!r}: the map from the {S.bit_length() - 1}-bit draw space onto the "
                         f"declared space is not injective, so values are not equiprobable", api=api)
            seen[key] = draws
        values.append(key)
        if getattr(g, "requested", None):
            bits = math.log2(_draw_space(rec)) if rec else 0
            ctx.check(bits + 1e-9 >= g.requested, "C06", "less-entropy-than-requested",
                      lambda: f"{api} {g.p}: draws carry {bits:.2f} bits, {g.requested} requested", api=api)
    ran.add("sample")
    ctx.log("values", api, g.n, values[:3])
    # ---- independent values are not related: two generated values of a large space differ ---------------------------
    if S >= 2 ** 40 and len(values) >= 2:
        ctx.check(len(set(values)) == len(values), "C06", "repeated-value", f"{api} {g.p}: {len(values) - len(set(values))} repeats in {len(values)} values of a {S.bit_length()}-bit space",
                  api=api)
    if bij:
        # ---- fault at the source: flip one bit of a recorded answer, replay, the value must change -------------------
        v0, rec0 = _one(ctx, src, g, "reference for bit flips")
        k0 = tuple(_symbols(v0))
        nbits = sum(r if k == "getrandbits" else max(1, (r - 1).bit_length()) for k, r, _ in rec0)
        positions = sorted({nbits - 1, nbits - 2, 0, 1, nbits // 2} | {(cfg["seed"] >> (3 * j)) % max(nbits, 1) for j in range(cfg["flips"])})
        for pos in positions:
            if pos < 0 or pos >= nbits:
                continue
            script = []
            off = 0
            changed = False
            for k, r, a in rec0:
                w = r if k == "getrandbits" else max(1, (r - 1).bit_length())
                if not changed and off <= pos < off + w:
                    b = pos - off
                    if k == "getrandbits":
                        a2 = a ^ (1 << b)
                    else:
                        a2 = a ^ (1 << b)
                        if a2 >= r:
                            a2 = (a + 1) % r
                    changed = a2 != a
                    a = a2
                off += w
                script.append(a)
            if not changed:
                continue
            src.mode = "scripted"
            src.script = list(script)
            v1, rec1 = _one(ctx, src, g, "bit flip")
            src.mode = "stream"
            ctx.fault("source_bit_flip")
            ctx.check(tuple(_symbols(v1)) != k0, "C06", "source-bit-does-not-matter",
                      lambda: f"{api} {g.p}: flipping bit {pos} of the {nbits} drawn bits leaves the value {v0!r} unchanged: that bit of the source's "
                              f"answer is thrown away although the draw space is exactly the declared space", api=api, high_bit=pos >= nbits // 2)
        ran.add("bitflip")
        ran.add("bitflip-done")
    else:
        ran.add("statistics")
    # ---- small spaces: ALL answers of the source (exhaustive enumeration of this sub-case): every declared value must be
    #      produced by the same number of answers, whether or not draw space and value space have the same size -------------
    v0, rec0 = _one(ctx, src, g, "reference for enumeration")
    slow = api in ("salt", "salt_any", "django_wrapper", "totp_new", "genphrase", "django_disabled", "libpass_hasher_salt", "app_handler_salt")
    if len(rec0) == 1 and S <= 2 ** 16:
        kind, r, _ = rec0[0]
        total = (1 << r) if kind == "getrandbits" else r
        if total <= (4096 if slow else 2 ** 16) and (cfg["exhaustive"] or total <= 1024):
            counts = {}
            src.mode = "scripted"
            for a in range(total):
                src.script = [a]
                v, _ = _one(ctx, src, g, "exhaustive")
                k_ = tuple(_symbols(v))
                counts[k_] = counts.get(k_, 0) + 1
            src.mode = "stream"
            ctx.fault("source_scripted_exhaustive")
            ctx.extra["exhaustive_subcases"] = ctx.extra.get("exhaustive_subcases", 0) + 1
            ctx.check(len(counts) == S, "C06", "value-space-not-covered",
                      f"{api} {g.p}: the {total} possible answers of the source reach {len(counts)} of the {S} declared values", api=api)
            lo_, hi_ = min(counts.values()), max(counts.values())
            ctx.check(lo_ == hi_, "C06", "values-not-equiprobable",
                      lambda: f"{api} {g.p}: over all {total} answers of the source some values are produced {hi_} times, others {lo_} times "
                              f"(e.g. {[''.join(map(str, k)) if not isinstance(k[0], int) else bytes(k) for k, c in counts.items() if c == hi_][:4]})", api=api)
            ran.add("exhaustive")
    # ---- statistics (always; decisive when the bijection argument does not apply) -------------------------------------------
    _statistics(ctx, g, values)
    ctx.nontrivial = True
    ctx.key(api, g.n, len(g.alphabet) if g.alphabet else 256, "stream", sorted(ran))


def _tail_ok(c, n, p, alpha=1e-13):
    """Chernoff bound on the binomial tail beyond c: an upper bound on the true tail, so never more alarms than an exact test"""
    q = c / n
    if q == p:
        return True
    kl = 0.0
    if q > 0:
        kl += q * math.log(q / p)
    if q < 1:
        kl += (1 - q) * math.log((1 - q) / (1 - p))
    return math.exp(-n * kl) > alpha


def _statistics(ctx, g, values):
    n_vals = len(values)
    if n_vals < 40 or g.n is None or g.n == 0:
        return
    L = len(g.alphabet) if g.alphabet else 256
    if getattr(g, "kind", "") == "bcrypt":
        positions = range(g.n - 1)
    else:
        positions = range(g.n)
    index = {s: i for i, s in enumerate(g.alphabet)} if g.alphabet else None
    # per-position symbol frequencies (Chernoff bound on both tails: no normal approximation, valid for tiny expectations)
    for pos in list(positions)[:6] + list(positions)[-2:]:
        counts = {}
        for v in values:
            counts[v[pos]] = counts.get(v[pos], 0) + 1
        for s_ in (g.alphabet or range(256)):
            c = counts.get(s_, 0)
            ctx.check(_tail_ok(c, n_vals, 1 / L), "C06", "symbol-frequency-off",
                      lambda: f"{g.api} {g.p}: symbol {s_!r} at position {pos}: {c} of {n_vals} values, expected {n_vals / L:.2f}", api=g.api)
    # bit-level correlation between adjacent symbols
    if g.n >= 2 and n_vals >= 400:
        width = 8 if index is None else max(1, (L - 1).bit_length())
        if index is not None and L & (L - 1):
            width = width - 1  # only bits that are (nearly) uniform for non power-of-two alphabets: the low ones
        if width >= 1:
            pairs = [(0, 1)] if g.n == 2 else [(0, 1), (g.n - 2, g.n - 1)]
            for (i, j) in pairs:
                for p in range(width):
                    for q in range(width):
                        agree = 0
                        for v in values:
                            a = v[i] if index is None else index[v[i]]
                            b = v[j] if index is None else index[v[j]]
                            agree += ((a >> p) & 1) == ((b >> q) & 1)
                        sd = math.sqrt(n_vals) / 2
                        slack = 0 if (index is None or not (L & (L - 1))) else n_vals * 0.08
                        ctx.check(abs(agree - n_vals / 2) <= 7 * sd + slack + 1, "C06", "adjacent-symbols-correlated",
                                  lambda: f"{g.api} {g.p}: bit {p} of symbol {i} and bit {q} of symbol {j} agree in {agree} of {n_vals} values "
                                          f"(independent: {n_vals / 2:.0f} +- {sd:.0f})", api=g.api)


def _pin_salt(cfg, ctx, src):
    """a CryptContext never lets a configuration pin a salt"""
    from passlib.context import CryptContext

    p = cfg["params"]
    h = p["hasher"]
    form = p["form"]
    salt = {"md5_crypt": "abcdefgh", "sha256_crypt": "abcdefgh", "pbkdf2_sha256": b"12345678", "bcrypt": "abcdefghijklmnopqrstuu",
            "ldap_salted_sha1": b"1234"}[h]
    kw = {"schemes": [h]}
    if MIN_COST.get(h) is not None:
        kw[f"{h}__default_rounds"] = MIN_COST[h]

    def attempt():
        if form == "ctor":
            return CryptContext(**dict(kw, **{f"{h}__salt": salt}))
        c = CryptContext(**kw)
        if form == "update":
            c.update(**{f"{h}__salt": salt})
        elif form == "load_update":
            c.load({f"{h}__salt": salt}, update=True)
        elif form == "ini":
            c.load(f"[passlib]\n{h}__salt = {salt if isinstance(salt, str) else salt.decode()}\n", update=True)
        elif form == "category":
            c.update(**{f"admin__{h}__salt": salt})
        elif form == "all":
            c.update(**{"all__salt": salt})
        return c

    with warnings.catch_warnings():
        warnings.simplefilter("ignore")
        try:
            c = attempt()
            outcome = "accepted"
        except (KeyError, ValueError, TypeError) as e:
            outcome = type(e).__name__
            c = CryptContext(**kw)
        except Exception as e:
            ctx.fail("C06", "pinning-a-salt-raises-internal-error", f"{form} {h}: {type(e).__name__}: {e}", form=form)
        # whatever happened: new hashes keep drawing fresh salts
        hs = {c.hash("pw", category=cat) for cat in (None, "admin") for _ in range(3)}
    ctx.check(outcome != "accepted", "C06", "context-accepts-pinned-salt", f"{form}: {h}__salt accepted by the context", form=form)
    ctx.check(len(hs) == 6, "C06", "context-salt-pinned", f"{form} {h}: 6 new hashes, {len(hs)} distinct: {sorted(hs)[:2]}", form=form)
    ctx.nontrivial = True
    ctx.key("ctx_pin_salt", form, h, outcome)


def prepare(prop, tier):
    import passlib.context  # noqa: F401
    import passlib.hash
    import passlib.pwd  # noqa: F401
    import passlib.totp  # noqa: F401

    for s in sorted(SALT_HASHERS) + ["django_disabled"]:
        getattr(passlib.hash, s)
