"""world `lazyinit` -- property C19 (DESIGN.md section 4).

2-3 real threads make their first calls on a fresh first-use object under the deterministic
scheduler of simkit.sched; every thread's outcome must equal the outcome of the same calls made by a
single thread in another fresh process.

This module must NOT import passlib handlers at import time: the worker processes are the template
every run is forked from, and "first use" happens once per process.
"""

from __future__ import annotations

import sys
import traceback
import warnings

from simkit import core
from simkit.refmodels.known_hashes import KNOWN, MIN_COST, PW
from simkit.sched import Scheduler, SimLock, install_import_locks, repo_prefixes

NAME = "lazyinit"
RULE = {
    "C19": "one run = one target (fresh LazyCryptContext with/without onload, shipped preset, multi-backend hasher, lazy base64 "
           "engine, unloaded registry name, context record caches, digest-info cache, or post-initialisation shared use with a "
           "non-reentrant crypt(3) model) x 2-3 threads' first calls x one seeded schedule (sticky walk / PCT / hot-spot / uniform / park-one-thread-mid-operation; "
           "pre-emption at every source line of /repo code, opcode level in hot functions in the thorough tier); each thread's "
           "outcomes are compared with those of the same calls made sequentially in another fresh process; non-trivial = the schedule "
           "switched threads at least once while >=2 threads were still running; distinct = distinct sequences of "
           "(from-thread, to-thread, function, relative line) at the switch points",
}
FAULT_KINDS = {"C19": ["preemption", "lock_contention", "crypt_static_buffer_yield", "import_lock_wait", "first_initialisation_fails",
                       "first_backend_candidate_unusable"]}
COMPONENTS = {
    "real": ["all passlib code (context, registry, utils.handlers backend machinery, utils.binary lazy engines, crypto.digest, handlers)",
             "CPython threads (real threading.Thread, one runnable at a time)", "crypt(3), bcrypt wheel, hashlib"],
    "stub": ["thread scheduling (baton passing at sys.settrace line/opcode events in /repo frames)",
             "every lock object passlib/libpass keep (module globals, class attributes: cooperative SimLocks with the same semantics)",
             "importlib._bootstrap._ModuleLock's waiting step (cooperative, in runs with preempt_imports; bookkeeping and deadlock detection are importlib's own)",
             "T8 only: crypt(3)'s static result buffer (modelled: write, yield, read)"],
    "unavailable": ["free-threaded interpreter", "pre-emption inside C code"],
}
ASSUMPTIONS = {"*": ["pre-emption only between two Python source lines (bytecodes in hot functions, thorough tier); CPython promises no "
                     "atomicity beyond one bytecode, so every explored interleaving is feasible",
                     "the single-thread outcome (same calls, fresh process) is the specification"]}

HOT = ["list_crypt_handlers", "_lazy_init", "__getattribute__", "set_backend", "_set_backend", "_stub_requires_backend", "_set_calc_checksum_backend",
       "_calc_checksum_backend", "_calc_checksum", "get_crypt_handler", "register_crypt_handler", "get_record",
       "_get_record_list", "identify_record", "lookup_hash", "_finalize_backend_mixin", "update_mixin_classes", "__get__",
       "_load_backend_mixin", "_get_or_identify_record", "_load_backend_os_crypt", "_load_backend_builtin", "__init__",
       "_init_records", "safe_crypt", "_norm_digest_args", "__getattr__"]

CTX_SCHEMES = ["md5_crypt", "sha256_crypt", "des_crypt", "ldap_salted_sha1", "hex_md5", "pbkdf2_sha256", "bsdi_crypt", "phpass",
               "bcrypt", "sha512_crypt", "sha1_crypt", "apr_md5_crypt", "ldap_md5_crypt", "django_pbkdf2_sha256", "bcrypt_sha256"]
BACKEND_HASHERS = ["des_crypt", "bsdi_crypt", "md5_crypt", "sha1_crypt", "sha256_crypt", "sha512_crypt", "bcrypt", "bcrypt_sha256",
                   "ldap_md5_crypt", "django_bcrypt", "ldap_des_crypt", "ldap_sha512_crypt", "scrypt", "django_bcrypt_sha256"]
PRESETS = [("passlib.apps", "custom_app_context", ["sha512_crypt", "sha256_crypt"]),
           ("passlib.apps", "ldap_context", ["ldap_salted_sha1", "ldap_md5", "ldap_md5_crypt", "ldap_sha256_crypt", "ldap_des_crypt"]),
           ("passlib.apps", "ldap_nocrypt_context", ["ldap_salted_sha1", "ldap_sha1", "ldap_md5"]),
           ("passlib.apps", "master_context", ["md5_crypt", "sha256_crypt", "bcrypt", "pbkdf2_sha256", "phpass", "ldap_salted_sha1"]),
           ("passlib.apps", "phpass_context", ["phpass", "bcrypt"]),
           ("passlib.apps", "django_context", ["django_pbkdf2_sha256", "django_bcrypt_sha256", "django_salted_sha1"]),
           ("passlib.apps", "mysql_context", ["mysql41"]),
           ("passlib.hosts", "linux_context", ["sha512_crypt", "sha256_crypt", "md5_crypt", "des_crypt", "bcrypt"]),
           ("passlib.hosts", "host_context", ["sha512_crypt", "md5_crypt", "des_crypt"]),
           ("passlib.hosts", "freebsd_context", ["bcrypt", "md5_crypt", "des_crypt", "bsdi_crypt"]),
           ("passlib.hosts", "openbsd_context", ["bcrypt", "md5_crypt", "bsdi_crypt", "des_crypt"]),
           ("passlib.hosts", "netbsd_context", ["bcrypt", "sha1_crypt", "md5_crypt", "bsdi_crypt", "des_crypt"]),
           ("passlib.apps", "django10_context", ["django_salted_sha1", "hex_md5"]),
           ("passlib.apps", "django14_context", ["django_pbkdf2_sha256", "django_bcrypt", "django_salted_sha1"]),
           ("passlib.apps", "django16_context", ["django_pbkdf2_sha256", "django_bcrypt_sha256", "django_bcrypt", "django_salted_sha1"]),
           ("passlib.apps", "roundup_context", ["ldap_hex_md5", "ldap_des_crypt"]),
           ("passlib.apps", "roundup10_context", ["ldap_hex_md5", "ldap_des_crypt"]),
           ("passlib.apps", "phpbb3_context", ["phpass"])]
REGISTRY_SIBLINGS = [["bcrypt", "bcrypt_sha256"], ["cisco_pix", "cisco_asa", "cisco_type7"], ["bigcrypt", "bsdi_crypt", "crypt16", "des_crypt"],
                     ["hex_md4", "hex_md5", "hex_sha1", "hex_sha256", "hex_sha512", "htdigest"],
                     ["django_pbkdf2_sha256", "django_pbkdf2_sha1", "django_salted_sha1", "django_salted_md5", "django_des_crypt", "django_disabled"],
                     ["ldap_md5", "ldap_sha1", "ldap_salted_md5", "ldap_salted_sha1", "ldap_salted_sha256", "ldap_md5_crypt", "ldap_sha256_crypt"],
                     ["apr_md5_crypt", "md5_crypt"], ["plaintext", "unix_disabled"], ["mssql2000", "mssql2005"], ["mysql323", "mysql41"],
                     ["oracle10", "oracle11"], ["pbkdf2_sha1", "pbkdf2_sha256", "pbkdf2_sha512", "ldap_pbkdf2_sha256", "grub_pbkdf2_sha512", "atlassian_pbkdf2_sha1"],
                     ["ldap_hex_md5", "ldap_hex_sha1", "roundup_plaintext"], ["sha256_crypt", "sha512_crypt"],
                     ["bsd_nthash", "lmhash", "msdcc", "msdcc2", "nthash"]]
REGISTRY_NAMES = ["md5_crypt", "sha256_crypt", "bcrypt", "pbkdf2_sha256", "ldap_salted_sha1", "phpass", "des_crypt", "scrypt",
                  "ldap_md5_crypt", "django_pbkdf2_sha256", "hex_md5", "unix_disabled", "bsdi_crypt", "nthash", "cisco_type7",
                  "scram", "sun_md5_crypt", "fshp", "mssql2005", "oracle11", "grub_pbkdf2_sha512", "ldap_pbkdf2_sha256",
                  # (more of the handlers that are OBJECTS built by their module -- prefix wrappers -- rather than classes)
                  "ldap_sha512_crypt", "ldap_des_crypt", "ldap_bcrypt", "django_bcrypt", "ldap_sha1_crypt"]


# ---------------------------------------------------------------------------------------------
# generation
# ---------------------------------------------------------------------------------------------
def _ctx_kwds(rng, schemes):
    kw = {"schemes": schemes}
    for s in schemes:
        c = MIN_COST.get(s)
        if c is not None:
            kw[f"{s}__default_rounds"] = c
            if s in ("sha256_crypt", "sha512_crypt", "bcrypt", "pbkdf2_sha256") and rng.random() < 0.3:
                kw[f"{s}__min_rounds"] = c
    if len(schemes) > 1 and rng.random() < 0.5:
        kw["deprecated"] = rng.choice([["auto"], [schemes[-1]]])
    if rng.random() < 0.3:
        kw["default"] = rng.choice(schemes) if "deprecated" not in kw else schemes[0]
    if rng.random() < 0.3:
        s = schemes[0]
        if MIN_COST.get(s) is not None:
            kw[f"admin__{s}__default_rounds"] = MIN_COST[s] + 1 if s not in ("bsdi_crypt",) else MIN_COST[s] + 2
    return kw


def _ctx_calls(rng, schemes, n, allow_hash=True, cats=(None,)):
    calls = []
    for _ in range(n):
        s = rng.choice(schemes)
        cat = rng.choice(list(cats))
        k = rng.choice(["hash", "verify", "verify", "identify", "needs_update", "schemes", "default_scheme", "handler", "to_dict",
                        "context_kwds", "verify_wrong", "verify_and_update", "to_string", "copy_use", "ctx_copy_use"])
        if k == "hash" and not allow_hash:
            k = "verify"
        if k == "hash":
            calls.append(["hash", rng.choice(["pw", "x", "é"]), cat])
        elif k in ("verify", "verify_wrong", "identify", "verify_and_update"):
            calls.append([k, s])
        elif k in ("copy_use", "ctx_copy_use"):
            # a copy of the shared object (copy.copy / copy.deepcopy / its own .copy()) taken as this thread's first access, then used
            # (copy.deepcopy is not among them: it walks the context's internal dictionaries in Python-level loops while other
            #  threads' verify() calls fill those caches -- "dictionary changed size during iteration" -- which is how deepcopy behaves
            #  on any shared object in use, not a first-use question; found by the last thorough soak, see DESIGN 10.3)
            calls.append([k, s, "copy"])
        elif k == "needs_update":
            calls.append([k, s, cat])
        elif k == "default_scheme":
            calls.append([k, cat])
        elif k == "handler":
            calls.append([k, rng.choice([None, s]), cat])
        else:
            calls.append([k])
    return calls


def generate(rng, prop, tier):
    t = rng.choices(["T1", "T2", "T3", "T4", "T5", "T6", "T7", "T8", "T9", "T10", "T11", "T12"], [18, 12, 18, 11, 13, 8, 4, 13, 3, 3, 4, 3])[0]
    nthreads = rng.choice([2, 2, 2, 3])
    params = {}
    threads = []
    if t == "T1":
        schemes = rng.sample(CTX_SCHEMES, rng.randint(1, 4))
        params = {"kwds": _ctx_kwds(rng, schemes), "onload": rng.choice([False, False, False, True, True, "fail_once"])}
        threads = [_ctx_calls(rng, schemes, rng.randint(1, 3), cats=(None, "admin")) for _ in range(nthreads)]
    elif t == "T2":
        mod, name, schemes = rng.choice(PRESETS)
        params = {"module": mod, "name": name}
        threads = [_ctx_calls(rng, schemes, rng.randint(1, 3), allow_hash=False, cats=(None, "admin")) for _ in range(nthreads)]
        if rng.random() < 0.4:
            # one thread works on the registry meanwhile (a preset's onload callback may enumerate or query it)
            threads[-1] = [rng.choice([["get_crypt_handler", rng.choice(REGISTRY_NAMES)], ["list_handlers", ""], ["hash_attr", rng.choice(REGISTRY_NAMES)]])
                           for _ in range(rng.randint(1, 2))]
    elif t == "T3":
        h = rng.choice(BACKEND_HASHERS)
        # crypt_lacks: a host whose crypt(3) knows none of these formats, so the FIRST candidate backend of the selection is tried
        # and found unusable before the next one is installed (a longer initialisation with a failed step in the middle)
        params = {"hasher": h, "derived": rng.random() < 0.25, "crypt_lacks": rng.random() < 0.4}
        backends = ["os_crypt", "builtin", "bcrypt", "stdlib", "any"]
        for _ in range(nthreads):
            calls = []
            for _ in range(rng.randint(1, 3)):
                k = rng.choice(["h_hash", "h_verify", "h_verify", "h_verify_wrong", "h_get_backend", "h_has_backend", "h_identify"])
                calls.append([k, rng.choice(backends)] if k == "h_has_backend" else [k])
            threads.append(calls)
    elif t == "T4":
        params = {"engine": rng.choice(["fresh", "fresh_big", "h64", "h64big", "bcrypt64", "via_des_crypt", "via_md5_crypt", "via_bcrypt"])}
        for _ in range(nthreads):
            calls = []
            for _ in range(rng.randint(1, 3)):
                k = rng.choice(["e_encode_bytes", "e_decode_bytes", "e_charmap", "e_encode_int24", "e_decode_int24",
                                "e_check_repair_unused", "e_big", "e_bytemap", "e_encode_int64"])
                calls.append([k, rng.randint(0, 2 ** 24 - 1)])
            threads.append(calls)
    elif t == "T5":
        name = rng.choice(REGISTRY_NAMES)
        # siblings: names hosted by the same, not yet imported, handler module -- the second thread asks for its
        # name while the first is in the middle of importing the module they share
        names = rng.choice(REGISTRY_SIBLINGS) if rng.random() < 0.5 else [name]  # ([name]: every thread's first lookup is of the SAME name)
        # entries loaded before the threads start: the registry is then a populated container other threads keep adding to
        params = {"name": names[0], "names": names, "preload": rng.sample(REGISTRY_NAMES, rng.choice([0, 0, 1, 3])) }
        for _ in range(nthreads):
            calls = []
            for _ in range(rng.randint(1, 2)):
                name = rng.choice(names)
                spelled = rng.choice([name, name, name, name.replace("_", "-"), name.upper()])
                k = rng.choice(["get_crypt_handler", "hash_attr", "new_context", "get_crypt_handler"])
                if rng.random() < 0.22:
                    k = "list_handlers"  # enumerating the registry while other threads are loading entries into it
                elif name in KNOWN and rng.random() < 0.35:
                    k = "reg_verify"  # first import + first backend choice + lazily resolved wrapped handler, all in the threads
                calls.append([k, spelled if rng.random() < 0.3 and k not in ("hash_attr", "reg_verify", "list_handlers") else name])
            threads.append(calls)
        if any(c[0] == "list_handlers" for th in threads for c in th):
            # enumerating an EMPTY registry has no window: make sure it is populated before the threads start, and that some
            # other thread still has a first load to make
            params["preload"] = rng.sample(REGISTRY_NAMES, rng.choice([2, 3, 5]))
            if not any(c[0] != "list_handlers" for th in threads for c in th):
                threads[-1] = [["get_crypt_handler", rng.choice(names)]]
    elif t == "T11":
        # an application's own handler module, registered by path (the documented extension mechanism): its body builds a
        # by-name PrefixWrapper, and somewhere else a LAZY wrapper around one of its handlers waits for its first use
        for _ in range(nthreads):
            threads.append([rng.choice([["u_lazy_hash"], ["u_lazy_verify"], ["u_get", "myhash"], ["u_get", "myhash_wrapped"], ["u_hash_attr", "myhash"],
                                        ["u_ctx", "myhash"]]) for _ in range(rng.randint(1, 2))])
        if not any(c[0].startswith("u_lazy") for th in threads for c in th):
            threads[0] = [["u_lazy_hash"]]
        if not any(not c[0].startswith("u_lazy") for th in threads for c in th):
            threads[-1] = [["u_get", "myhash"]]
    elif t == "T6":
        schemes = rng.sample(CTX_SCHEMES, rng.randint(1, 4))
        if rng.random() < 0.5:
            schemes.append("unix_disabled")
        params = {"kwds": _ctx_kwds(rng, schemes)}
        real = [s for s in schemes if s != "unix_disabled"]
        for _ in range(nthreads):
            calls = _ctx_calls(rng, real, rng.randint(1, 3), cats=(None, "admin", "staff"))
            if rng.random() < 0.5:
                calls.append(rng.choice([["verify_none"], ["dummy_verify"], ["disable", rng.choice(real)], ["is_enabled", rng.choice(real)]]))
            threads.append(calls)
    elif t == "T7":
        for _ in range(nthreads):
            threads.append([rng.choice([["lookup_hash", rng.choice(["sha-256", "sha256", "SHA-1", "md5", "sha512", "md4", "sha3-256", "blake2b"])],
                                        ["pbkdf2_hmac", rng.choice(["sha256", "sha1", "sha512", "md5"])],
                                        ["compile_hmac", rng.choice(["sha1", "sha256", "md5"])],
                                        ["norm_hash_name", rng.choice(["sha-256", "SHA1", "md5"])]])
                            for _ in range(rng.randint(1, 3))])
    elif t == "T9":
        # password generators: word sets are loaded from disk and memoised on first use
        for _ in range(nthreads):
            threads.append([rng.choice([["genphrase", rng.choice(["eff_long", "eff_short", "eff_prefixed", "bip39"]), rng.choice([2, 4])],
                                        ["genword", rng.choice(["ascii_62", "ascii_72", "hex"]), rng.choice([4, 12])],
                                        ["wordset_len", rng.choice(["eff_long", "eff_short", "bip39"])]])
                            for _ in range(rng.randint(1, 2))])
    elif t == "T12":
        # the pure-Python Blowfish engine (the builtin bcrypt backend's core): its constant tables are built on first use
        for _ in range(nthreads):
            threads.append([rng.choice([["bf_engine"], ["bf_engine"], ["bf_encipher", rng.randint(0, 2 ** 32 - 1), rng.randint(0, 2 ** 32 - 1)]])  # (a key expansion is ~10^5 traced lines: too slow under the scheduler)
                            for _ in range(rng.randint(1, 2))])
    elif t == "T10":
        # libpass context: cached properties and hashers shared by threads
        params = {"schemes": rng.sample(["sha256", "sha512", "pbkdf2_sha256", "pbkdf2_sha512", "bcrypt"], rng.randint(1, 3))}
        for _ in range(nthreads):
            threads.append([rng.choice([["lp_roundtrip", f"pw{rng.randint(0, 9)}"], ["lp_verify_known"], ["lp_needs_update_known"], ["lp_verify_wrong"]])
                            for _ in range(rng.randint(1, 3))])
    else:  # T8
        # (nthash / msdcc / lmhash / hex_md4 run on the library's pure-Python MD4 and DES here: hashlib has no md4 on this image)
        schemes = rng.sample(["md5_crypt", "sha256_crypt", "des_crypt", "sha512_crypt", "bsdi_crypt", "sha1_crypt", "bcrypt",
                              "nthash", "nthash", "lmhash", "bsd_nthash"], rng.randint(1, 3))
        schemes = list(dict.fromkeys(schemes))
        params = {"kwds": _ctx_kwds(rng, schemes), "schemes": schemes}
        for i in range(nthreads):
            calls = []
            for j in range(rng.randint(2, 4)):
                s = rng.choice(schemes)
                calls.append(rng.choice([["t8_roundtrip", s, f"pw-{i}-{j}"], ["t8_verify", s], ["t8_verify_wrong", s], ["t8_ctx_roundtrip", f"pw{i}{j}"]]))
            threads.append(calls)
    strategy = rng.choices(["sticky", "pct", "hotspot", "uniform", "park"], [30, 20, 22, 8, 20])[0]
    sparams = {}
    if strategy == "sticky":
        sparams["p"] = rng.choice([0.005, 0.01, 0.03, 0.03, 0.1, 0.3])
    elif strategy == "pct":
        sparams = {"depth": rng.choice([1, 2, 2, 3]), "est_len": rng.choice([50, 150, 400, 1000, 3000])}
    elif strategy == "park":
        sparams = {"victim": rng.randrange(nthreads), "p": rng.choice([0.0, 0.0, 0.01]),
                   "at": rng.choice([rng.randint(1, 6), rng.randint(1, 40), rng.randint(1, 400), rng.randint(1, 3000)])}
    elif strategy == "hotspot":
        # (registry runs: the anchors of a name's first lookup, incl. attribute hooks of handler modules and of the proxy)
        pool = ["get_crypt_handler", "register_crypt_handler", "__getattr__", "list_crypt_handlers", "__getattribute__", "__init__"] if t in ("T5", "T11") else HOT[:18]
        sparams = {"plan": [[rng.choice(pool), rng.randint(1, 12)] for _ in range(rng.randint(1, 3))],
                   "p": rng.choice([0.0, 0.005, 0.02])}
    # pre-emption inside module bodies of imports made by the threads (cooperative import locks)
    preempt_imports = rng.random() < {"T5": 0.7, "T1": 0.25, "T2": 0.25, "T6": 0.25, "T11": 1.0}.get(t, 0.1)
    cfg = {"target": t, "params": params, "threads": threads, "strategy": strategy, "sparams": sparams, "preempt_imports": preempt_imports,
           "crypt_lacks": t in ("T1", "T2", "T5", "T6", "T9", "T10", "T11") and rng.random() < 0.3,
           "opcode_hot": tier == "thorough" and rng.random() < 0.3, "seed": rng.getrandbits(32)}
    return {"cfg": cfg, "ops": []}


def simplify_cfg(cfg):
    out = []
    th = cfg["threads"]
    if cfg.get("crypt_lacks"):
        out.append(dict(cfg, crypt_lacks=False))
    if len(th) > 2:
        for i in range(len(th)):
            c = dict(cfg)
            c["threads"] = th[:i] + th[i + 1:]
            out.append(c)
    for i, calls in enumerate(th):
        if len(calls) > 1:
            for j in range(len(calls)):
                c = dict(cfg)
                c["threads"] = [list(x) for x in th]
                c["threads"][i] = calls[:j] + calls[j + 1:]
                out.append(c)
    return out


# ---------------------------------------------------------------------------------------------
# environment + calls
# ---------------------------------------------------------------------------------------------
USER_MODULE = '''"""an application's own handlers (written by the harness into a scratch directory)"""
import hashlib

from passlib.utils import handlers as uh


class myhash(uh.StaticHandler):
    name = "myhash"
    checksum_chars = uh.LOWER_HEX_CHARS
    checksum_size = 32
    _hash_prefix = "@my@"

    def _calc_checksum(self, secret):
        if isinstance(secret, str):
            secret = secret.encode("utf-8")
        return hashlib.md5(b"my:" + secret).hexdigest()


# a wrapper given BY NAME and resolved right here, at import time (as in PrefixWrapper's docstring example)
myhash_wrapped = uh.PrefixWrapper("myhash_wrapped", "md5_crypt", prefix="{MY}", lazy=False)
'''


class OnloadFailure(RuntimeError):
    """raised by the harness's own onload callback (fault: the first initialisation of a lazy context fails)"""


def _install_locks(sched):
    """replace every lock object the library keeps (module globals and class attributes of passlib/libpass
    modules) by a cooperative SimLock with the same re-entrancy: a parked thread must never hold a real lock"""
    import threading

    t_lock = type(threading.Lock())
    t_rlock = type(threading.RLock())
    locks = {}
    for mname, mod in sorted(sys.modules.items()):
        if mod is None or not (mname == "passlib" or mname.startswith("passlib.") or mname == "libpass" or mname.startswith("libpass.")):
            continue
        for name, val in sorted(vars(mod).items(), key=lambda kv: kv[0]):
            if isinstance(val, (t_lock, t_rlock)):
                key = f"{mname}.{name}"
                locks[key] = SimLock(sched, isinstance(val, t_rlock), key)
                setattr(mod, name, locks[key])
            elif isinstance(val, type) and getattr(val, "__module__", None) == mname:
                for an, av in sorted(vars(val).items(), key=lambda kv: kv[0]):
                    if isinstance(av, (t_lock, t_rlock)):
                        key = f"{mname}.{val.__name__}.{an}"
                        locks[key] = SimLock(sched, isinstance(av, t_rlock), key)
                        setattr(val, an, locks[key])
    return locks


def build_env(cfg):
    """runs in the main thread, untraced, before any worker starts"""
    t = cfg["target"]
    p = cfg["params"]
    env = {"target": t}
    if cfg.get("crypt_lacks"):
        # the whole process runs on a host whose crypt(3) knows none of the formats (see T3)
        from simkit.seams import SimCrypt

        SimCrypt().install().lost.add("")
    with warnings.catch_warnings():
        warnings.simplefilter("ignore")
        if t == "T1":
            from passlib.context import LazyCryptContext

            kw = dict(p["kwds"])
            if p.get("onload"):
                state = {"calls": 0}

                def onload(**kwds):
                    state["calls"] += 1
                    if p["onload"] == "fail_once" and state["calls"] == 1:
                        # a configuration source that is not there yet: the first initialisation fails, a later one works
                        raise OnloadFailure("configuration source not ready")
                    kwds.pop("marker", None)
                    return kwds

                env["ctx"] = LazyCryptContext(onload=onload, marker=1, **kw)
            else:
                env["ctx"] = LazyCryptContext(**kw)
        elif t == "T2":
            import importlib

            env["ctx"] = getattr(importlib.import_module(p["module"]), p["name"])
        elif t == "T3":
            import passlib.hash

            if p.get("crypt_lacks"):
                from simkit.seams import SimCrypt

                sc = SimCrypt().install()
                sc.lost.add("")
            H = getattr(passlib.hash, p["hasher"])
            env["H0"] = H
            if p.get("derived"):
                c = MIN_COST.get(p["hasher"])
                H = H.using(**({"rounds": c} if c is not None else {}))
            env["H"] = H
            env["hname"] = p["hasher"]
        elif t == "T4":
            import passlib.utils.binary as pb

            e = p["engine"]
            if e == "fresh":
                env["eng"] = pb.LazyBase64Engine(pb.HASH64_CHARS)
            elif e == "fresh_big":
                env["eng"] = pb.LazyBase64Engine(pb.BCRYPT_CHARS, big=True)
            elif e in ("h64", "h64big", "bcrypt64"):
                env["eng"] = getattr(pb, e)
            else:
                import passlib.hash

                env["via"] = getattr(passlib.hash, e[4:])
        elif t == "T5":
            import passlib.hash  # noqa: F401  (the proxy module only)
            from passlib.registry import get_crypt_handler

            for n in p.get("preload", ()):
                get_crypt_handler(n)
        elif t == "T11":
            import os
            import tempfile

            from passlib.registry import register_crypt_handler_path
            from passlib.utils import handlers as uh

            d = tempfile.mkdtemp(prefix="verif-userhandlers-")
            with open(os.path.join(d, "verif_userhandlers.py"), "w") as fh:
                fh.write(USER_MODULE)
            sys.path.insert(0, d)
            env["tmpdir"] = d
            register_crypt_handler_path("myhash", "verif_userhandlers")
            register_crypt_handler_path("myhash_wrapped", "verif_userhandlers")
            env["lazyw"] = uh.PrefixWrapper("lazy_myhash", "myhash", prefix="{L}", lazy=True)
        elif t in ("T6", "T8"):
            from passlib.context import CryptContext

            env["ctx"] = CryptContext(**p["kwds"])
            if t == "T8":
                import passlib.hash

                env["hashers"] = {}
                for s in p["schemes"]:
                    H = getattr(passlib.hash, s)
                    c = MIN_COST.get(s)
                    Hc = H.using(**({"rounds": c} if c is not None else {}))
                    env["hashers"][s] = Hc
                    # initialise everything first: this target is about use AFTER initialisation
                    Hc.verify(PW, KNOWN[s])
                    Hc.hash("warm-up")
                env["ctx"].hash("warm-up")
                env["ctx"].verify(PW, KNOWN[p["schemes"][0]])
        elif t == "T7":
            import passlib.crypto.digest  # noqa: F401
        elif t == "T9":
            import passlib.pwd  # noqa: F401
        elif t == "T10":
            from libpass.context import CryptContext as LPContext
            from libpass.hashers.bcrypt import BcryptHasher
            from libpass.hashers.pbkdf2 import PBKDF2SHA256Handler, PBKDF2SHA512Handler
            from libpass.hashers.sha_crypt import SHA256Hasher, SHA512Hasher

            mk = {"sha256": lambda: SHA256Hasher(rounds=1000), "sha512": lambda: SHA512Hasher(rounds=1000),
                  "pbkdf2_sha256": lambda: PBKDF2SHA256Handler(rounds=1), "pbkdf2_sha512": lambda: PBKDF2SHA512Handler(rounds=1),
                  "bcrypt": lambda: BcryptHasher(rounds=4)}
            env["lp"] = LPContext([mk[n]() for n in p["schemes"]])
            env["lp_known"] = {"sha256": KNOWN["sha256_crypt"], "sha512": KNOWN["sha512_crypt"], "pbkdf2_sha256": KNOWN["pbkdf2_sha256"],
                               "pbkdf2_sha512": KNOWN["pbkdf2_sha512"], "bcrypt": KNOWN["bcrypt"]}[p["schemes"][-1]]
    return env


def _repo_func(tb):
    pre = repo_prefixes()
    name = "?"
    for fs in traceback.extract_tb(tb):
        if fs.filename.startswith(pre):
            name = fs.name
    return name


def do_call(env, spec):
    """one public-API call; returns a JSON-able outcome. Never raises."""
    k = spec[0]
    try:
        with warnings.catch_warnings():
            warnings.simplefilter("ignore")
            return ["ok", _call(env, k, spec)]
    except Exception as e:
        return ["exc", type(e).__name__, _repo_func(e.__traceback__), str(e)[:200]]


def _call(env, k, spec):
    ctx = env.get("ctx")
    if k == "hash":
        return ["hash", ctx.hash(spec[1], category=spec[2]), spec[1], spec[2]]
    if k == "verify":
        return ctx.verify(PW, KNOWN[spec[1]])
    if k == "verify_wrong":
        return ctx.verify("not-the-password", KNOWN[spec[1]])
    if k == "verify_and_update":
        ok, new = ctx.verify_and_update(PW, KNOWN[spec[1]])
        return [ok, new is None] if new is None else ["vau", ok, ["hash", new, PW, None]]
    if k == "identify":
        return ctx.identify(KNOWN[spec[1]])
    if k == "needs_update":
        return ctx.needs_update(KNOWN[spec[1]], category=spec[2])
    if k in ("copy_use", "ctx_copy_use"):
        import copy as _copy

        c2 = ctx.copy() if k == "ctx_copy_use" else getattr(_copy, spec[2])(ctx)
        return [list(c2.schemes()), c2.verify(PW, KNOWN[spec[1]]), c2.verify(PW + "x", KNOWN[spec[1]])]
    if k == "schemes":
        return list(ctx.schemes())
    if k == "default_scheme":
        return ctx.default_scheme(spec[1])
    if k == "handler":
        return ctx.handler(spec[1], spec[2]).name
    if k == "to_dict":
        return sorted((a, repr(b)) for a, b in ctx.to_dict().items())
    if k == "to_string":
        return ctx.to_string()
    if k == "context_kwds":
        return sorted(ctx.context_kwds)
    if k == "verify_none":
        return ctx.verify(PW, None)
    if k == "dummy_verify":
        return ctx.dummy_verify()
    if k == "disable":
        return ctx.disable(KNOWN[spec[1]])
    if k == "is_enabled":
        return ctx.is_enabled(KNOWN[spec[1]])
    H = env.get("H")
    if k == "h_hash":
        c = MIN_COST.get(env["hname"])
        Hc = H.using(**({"rounds": c} if c is not None else {}))
        return ["hhash", Hc.hash(PW)]
    if k == "h_verify":
        return H.verify(PW, KNOWN[env["hname"]])
    if k == "h_verify_wrong":
        return H.verify("not-the-password", KNOWN[env["hname"]])
    if k == "h_identify":
        return H.identify(KNOWN[env["hname"]])
    if k == "h_get_backend":
        return H.get_backend()
    if k == "h_has_backend":
        return H.has_backend(spec[1])
    if k.startswith("e_"):
        v = spec[1]
        if "via" in env:
            Hv = env["via"]
            name = Hv.name
            if k in ("e_encode_bytes", "e_encode_int24", "e_encode_int64", "e_big"):
                c = MIN_COST.get(name)
                return ["hhash", Hv.using(**({"rounds": c} if c is not None else {})).hash(PW)]
            return Hv.verify(PW, KNOWN[name])
        eng = env["eng"]
        raw = v.to_bytes(3, "big")
        if k == "e_encode_bytes":
            return eng.encode_bytes(raw).decode("ascii")
        if k == "e_decode_bytes":
            return eng.decode_bytes(b"ab.Z").hex()
        if k == "e_charmap":
            return eng.charmap
        if k == "e_bytemap":
            return eng.bytemap.decode("ascii")
        if k == "e_big":
            return eng.big
        if k == "e_encode_int24":
            return eng.encode_int24(v).decode("ascii")
        if k == "e_decode_int24":
            return eng.decode_int24(b"a/.Z")
        if k == "e_encode_int64":
            return eng.encode_int64(v * 1000003).decode("ascii")
        if k == "e_check_repair_unused":
            a, b = eng.check_repair_unused("ab")
            return [a, b]
    if k == "get_crypt_handler":
        from passlib.registry import get_crypt_handler

        h = get_crypt_handler(spec[1])
        return ["obj", h.name, id(h)]
    if k == "u_lazy_hash":
        w = env["lazyw"]
        h = w.hash(PW)
        return [h, w.verify(PW, h), w.identify(h)]
    if k == "u_lazy_verify":
        w = env["lazyw"]
        return [w.verify(PW, "{L}@my@" + "0" * 32), w.identify("{L}@my@" + "0" * 32)]
    if k == "u_get":
        from passlib.registry import get_crypt_handler

        h = get_crypt_handler(spec[1])
        return ["obj", h.name, id(h)]
    if k == "u_hash_attr":
        import passlib.hash

        h = getattr(passlib.hash, spec[1])
        return [h.name, h.hash(PW)]
    if k == "u_ctx":
        from passlib.context import CryptContext

        c = CryptContext([spec[1]])
        h = c.hash(PW)
        return [h, c.verify(PW, h)]
    if k == "list_handlers":
        from passlib.registry import list_crypt_handlers

        names = list_crypt_handlers()
        return [len(names), names[:3], names[-2:]]
    if k == "reg_verify":
        from passlib.registry import get_crypt_handler

        h = get_crypt_handler(spec[1])
        return [h.verify(PW, KNOWN[spec[1]]), h.verify("not-the-password", KNOWN[spec[1]]), h.identify(KNOWN[spec[1]])]
    if k == "hash_attr":
        import passlib.hash

        h = getattr(passlib.hash, spec[1])
        return ["obj", h.name, id(h)]
    if k == "new_context":
        from passlib.context import CryptContext

        c = CryptContext([spec[1]])
        h = c.handler()
        return ["obj", h.name, 0]
    if k == "lookup_hash":
        from passlib.crypto.digest import lookup_hash

        i = lookup_hash(spec[1])
        return [i.name, i.digest_size, i.block_size, list(i.aliases) if hasattr(i, "aliases") else None]
    if k == "norm_hash_name":
        from passlib.crypto.digest import norm_hash_name

        return [norm_hash_name(spec[1]), norm_hash_name(spec[1], "iana")]
    if k == "pbkdf2_hmac":
        from passlib.crypto.digest import pbkdf2_hmac

        return pbkdf2_hmac(spec[1], b"pw", b"salt", 2, 24).hex()
    if k == "compile_hmac":
        from passlib.crypto.digest import compile_hmac

        return compile_hmac(spec[1], b"key")(b"msg").hex()
    if k == "genphrase":
        from passlib import pwd

        ph = pwd.genphrase(wordset=spec[1], length=spec[2])
        words = set(pwd.default_wordsets[spec[1]])
        parts = ph.split(" ")
        return [len(parts), all(w in words for w in parts)]
    if k == "genword":
        from passlib import pwd

        w = pwd.genword(charset=spec[1], length=spec[2])
        return [len(w), all(ch in pwd.default_charsets[spec[1]] for ch in w)]
    if k == "wordset_len":
        from passlib import pwd

        return len(pwd.default_wordsets[spec[1]])
    if k.startswith("bf_"):
        import zlib

        from passlib.crypto._blowfish import BlowfishEngine

        e = BlowfishEngine()
        if k == "bf_encipher":
            return list(e.encipher(spec[1], spec[2]))
        if k == "bf_expand":
            e.expand(e.key_to_words(spec[1].encode("ascii")))
        return [zlib.crc32(repr(e.P).encode()), zlib.crc32(repr(e.S).encode())]
    if k == "lp_roundtrip":
        lp = env["lp"]
        h = lp.hash(spec[1])
        return [lp.verify(spec[1], h), lp.verify(spec[1] + "x", h), lp.needs_update(h)]
    if k == "lp_verify_known":
        return env["lp"].verify(PW, env["lp_known"])
    if k == "lp_verify_wrong":
        return env["lp"].verify("not-the-password", env["lp_known"])
    if k == "lp_needs_update_known":
        return env["lp"].needs_update(env["lp_known"])
    if k == "t8_roundtrip":
        Hc = env["hashers"][spec[1]]
        h = Hc.hash(spec[2])
        return [Hc.verify(spec[2], h), Hc.verify(spec[2] + "x", h), Hc.identify(h)]
    if k == "t8_verify":
        return env["hashers"][spec[1]].verify(PW, KNOWN[spec[1]])
    if k == "t8_verify_wrong":
        return env["hashers"][spec[1]].verify("not-the-password", KNOWN[spec[1]])
    if k == "t8_ctx_roundtrip":
        h = ctx.hash(spec[1])
        return [ctx.verify(spec[1], h), ctx.verify(spec[1] + "x", h), ctx.needs_update(h)]
    raise AssertionError(f"unknown call {k}")


def _postprocess(env, outcomes):
    """replace fresh hash strings by the predicate the statement gives for them (main thread, untraced)"""
    ids = {}

    def fix(v):
        if isinstance(v, list) and v and v[0] == "hash":
            ctx = env["ctx"]
            try:
                with warnings.catch_warnings():
                    warnings.simplefilter("ignore")
                    ok = [isinstance(v[1], str), ctx.identify(v[1]) == ctx.default_scheme(v[3]), ctx.verify(v[2], v[1]),
                          not ctx.needs_update(v[1], category=v[3]),
                          ctx.handler(None, v[3]).identify(v[1])]
            except Exception as e:
                ok = ["post-check-exc", type(e).__name__]
            return ["hash-ok"] if ok == [True] * 5 else ["hash-bad", ok]
        if isinstance(v, list) and v and v[0] == "hhash":
            H = env.get("H") or env.get("via")
            try:
                with warnings.catch_warnings():
                    warnings.simplefilter("ignore")
                    ok = [isinstance(v[1], str), H.identify(v[1]), H.verify(PW, v[1]), not H.verify("other", v[1])]
            except Exception as e:
                ok = ["post-check-exc", type(e).__name__]
            return ["hash-ok"] if ok == [True] * 4 else ["hash-bad", ok]
        if isinstance(v, list) and v and v[0] == "vau":
            return ["vau", v[1], fix(v[2])]
        if isinstance(v, list) and v and v[0] == "obj":
            if v[2] == 0:
                return ["obj", v[1]]
            ids.setdefault(v[1], set()).add(v[2])
            return ["obj", v[1]]
        return v

    out = []
    for th in outcomes:
        out.append([[o[0], fix(o[1])] if o[0] == "ok" else o[:3] for o in th])
    return out, {k: len(v) for k, v in ids.items()}


def _cleanup(env):
    d = env.get("tmpdir")
    if d:
        import shutil

        shutil.rmtree(d, ignore_errors=True)


def _sequential(cfg):
    """the specification: the same calls, one thread, fresh process"""
    env = build_env(cfg)
    try:
        outcomes = [[do_call(env, c) for c in calls] for calls in cfg["threads"]]
        fixed, ids = _postprocess(env, outcomes)
    finally:
        _cleanup(env)
    return {"outcomes": fixed, "ids": ids}


# ---------------------------------------------------------------------------------------------
# execution
# ---------------------------------------------------------------------------------------------
def execute(program, ctx):
    import random

    cfg = program["cfg"]
    # 1. specification outcome, in a grandchild forked from this still-fresh process
    fail_once = cfg["target"] == "T1" and cfg["params"].get("onload") == "fail_once"
    # (with an onload callback that fails once, WHICH call meets the failure depends on the schedule: every other call is
    #  compared with what a working context answers, and exactly one call must have met the injected failure)
    ref_cfg = dict(cfg, params=dict(cfg["params"], onload=True)) if fail_once else cfg
    ref = core.isolated(lambda: _sequential(ref_cfg), timeout=50)
    if "harness_error" in ref:
        raise core.HarnessError(f"sequential reference failed: {ref['harness_error']} {ref.get('traceback', '')}")
    # 2. the concurrent run
    decisions = program["ops"] if cfg["strategy"] == "replay" else None
    sched = Scheduler(random.Random(cfg["seed"]), cfg["strategy"], cfg.get("sparams"), repo_prefixes(),
                      max_steps=150000, hot_names=HOT, opcode_hot=cfg.get("opcode_hot", False), decisions=decisions,
                      preempt_imports=cfg.get("preempt_imports", False))
    if cfg.get("preempt_imports"):
        install_import_locks(sched)
    # the library's one shared random source is a seam too: salts decide data-dependent paths (e.g. bcrypt's
    # padding-bit repair), so it is fed from the run's seed
    from simkit.seams import SimRandom

    SimRandom(cfg["seed"] ^ 0x5EED).install()
    env = build_env(cfg)
    locks = _install_locks(sched)
    if cfg["target"] == "T8":
        _install_nonreentrant_crypt(sched, ctx)
    results = [None] * len(cfg["threads"])
    tgt = cfg["target"] + ":" + _target_label(cfg)
    kind = _target_kind(cfg)

    def make(i, calls):
        def body(worker):
            out = []
            for c in calls:
                out.append(do_call(env, c))
            results[i] = out
            return True
        return body

    for i, calls in enumerate(cfg["threads"]):
        sched.spawn(make(i, calls))
    finished = sched.run(timeout=50)
    sys.settrace(None)
    _cleanup(env)
    ctx.op(sum(len(c) for c in cfg["threads"]))
    ctx.sim_time += sched.step
    ctx.fault("preemption", max(0, len(sched.switches) - 1))
    ctx.fault("lock_contention", sum(l.contended for l in locks.values()))
    if cfg.get("preempt_imports"):
        ctx.fault("import_lock_wait", sched.import_waits)
        if any(s[2] == "<module>" for s in sched.switch_sites):
            ctx.probe("preempted_inside_module_body")
    ctx.extra["strategies"] = {cfg["strategy"]: 1}
    if cfg["strategy"] == "park" and sched.park_hits:
        ctx.probe("victim_parked_mid_operation")
    ctx.extra["targets"] = {cfg["target"]: 1}
    ctx.extra["hot_hits"] = dict(sched.hot_hits)
    ctx.extra["switch_sites"] = sorted({f"{s[2]}+{s[3]}" for s in sched.switch_sites})
    ctx.extra["steps"] = sched.step
    ctx.log("switches", sched.switches)
    replay = {"cfg": dict(cfg, strategy="replay", sparams={}), "ops": [list(s) for s in sched.switches]}
    ctx.replay_program = replay

    if sched.harness_error:
        raise core.HarnessError(f"{tgt}: exception inside the scheduler's trace function: {sched.harness_error}")
    if sched.deadlock:
        ctx.fail("C19", "deadlock", f"{tgt}: all live threads blocked: {sched.deadlock}", target=kind)
    if not finished:
        raise core.HarnessError(f"{tgt}: scheduler lost control (a thread blocked outside the simulator for 50 s); "
                                f"step={sched.step} switches={sched.switch_sites[-5:]}")
    if sched.capped:
        ctx.probe("step_cap_hit")
        ctx.log("capped")
        return
    for w in sched.workers:
        if w.result is not True:
            raise core.HarnessError(f"worker {w.idx} failed in the harness: {w.result}")
    fixed, ids = _postprocess(env, results)
    import json as _json

    fixed = _json.loads(core.cjson(fixed))  # same shape as the reference, which crossed a pipe as JSON
    ctx.log("outcomes", fixed)
    interleaved = len([s for s in sched.switch_sites if s[2] != "thread-end"]) > 0
    if interleaved:
        ctx.nontrivial = True
        ctx.key([list(s) for s in sched.switch_sites])
    # 3. compare, call by call
    injected = 0
    for ti, (got_t, want_t) in enumerate(zip(fixed, ref["outcomes"])):
        for ci, (got, want) in enumerate(zip(got_t, want_t)):
            call = cfg["threads"][ti][ci]
            if fail_once and got[0] == "exc" and got[1] == "OnloadFailure":
                injected += 1
                continue
            if got[0] == "exc":
                same = want[0] == "exc" and want[1] == got[1]
                ctx.check(same, "C19", "thread-outcome-differs",
                          lambda: f"{tgt}: thread {ti} call {call} raised {got[1]} in {got[2]}() ({results[ti][ci][3]!r}); "
                                  f"a single thread gets {want}; switches={sched.switch_sites[:12]}",
                          target=kind, exc=got[1], func=got[2])
            else:
                ctx.check(got == want, "C19", "thread-outcome-differs",
                          lambda: f"{tgt}: thread {ti} call {call} returned {got[1]!r}; a single thread gets {want}; "
                                  f"switches={sched.switch_sites[:12]}",
                          target=kind, exc="wrong-value", func=call[0])
    if cfg.get("crypt_lacks") or (cfg["target"] == "T3" and cfg["params"].get("crypt_lacks")):
        ctx.fault("first_backend_candidate_unusable")
    if fail_once:
        ctx.fault("first_initialisation_fails")
        ctx.check(injected == 1, "C19", "thread-outcome-differs",
                  f"{tgt}: the onload callback failed exactly once, but {injected} calls met the failure", target=kind, exc="injected-failure-count", func="onload")
    for name, n in ids.items():
        ctx.check(n == 1, "C19", "registry-object-not-unique", f"{name}: {n} distinct handler objects handed out", target=kind)


def _target_kind(cfg):
    """what kind of first-use object the run is about (root-cause granularity for signatures)"""
    t = cfg["target"]
    return {"T1": "LazyCryptContext", "T2": "LazyCryptContext", "T3": "multi-backend-hasher", "T4": "LazyBase64Engine",
            "T5": "registry", "T6": "CryptContext-caches", "T7": "digest-cache", "T8": "post-init", "T9": "pwd-wordsets", "T11": "user-handler-module",
            "T10": "libpass-context", "T12": "blowfish-tables"}[t]


def _target_label(cfg):
    p = cfg["params"]
    t = cfg["target"]
    if t == "T1":
        return "LazyCryptContext" + ("+onload" if p.get("onload") else "")
    if t == "T2":
        return p["name"]
    if t == "T3":
        return p["hasher"] + ("(derived)" if p.get("derived") else "")
    if t == "T4":
        return p["engine"]
    if t == "T5":
        return "registry"
    if t == "T6":
        return "CryptContext-caches"
    if t == "T7":
        return "digest-cache"
    if t == "T9":
        return "pwd"
    if t == "T11":
        return "user-handler-module"
    if t == "T10":
        return "libpass:" + ",".join(p["schemes"])
    if t == "T12":
        return "blowfish-engine"
    return "post-init"


def _install_nonreentrant_crypt(sched, ctx):
    """crypt(3) keeps its answer in one static buffer: model it as write, (pre-emption point), read"""
    import passlib.utils as pu

    real = pu._crypt
    buf = {}

    def crypt_nr(secret, config):
        buf["v"] = real(secret, config)
        w = sched.current_worker()
        if w is not None:
            ctx.fault("crypt_static_buffer_yield")
            sched.yield_point(w, None, "crypt-static-buffer")
        return buf["v"]

    pu._crypt = crypt_nr


def prepare(prop, tier):
    import passlib.context  # noqa: F401
    import passlib.registry  # noqa: F401
    import passlib.utils  # noqa: F401


def evaluations(total):
    return ("schedules (one run = one target x one schedule)", total["runs"])
