"""credstore world, mode "lifecycle" -- property C18.

Account records evolve under disable / enable / login, interleaved with policy updates and
export/import restarts. Oracle: a reference grammar of disabled records (marker '!' or '*' +
optional embedded original) and a counting hasher that observes the "costs a dummy verification"
clause deterministically (calls of the default scheme's digest routine, not wall time).
"""

from __future__ import annotations

import warnings

from simkit.refmodels.known_hashes import MIN_COST
from simkit.refmodels.policy import merge as merge_policy
from simkit.worlds.credstore import COSTED, _call, build_context

MARKERS = ("!", "*")


def make_counting(base, counter):
    class Counting(base):
        def _calc_checksum(self, secret):
            counter["n"] += 1
            return super()._calc_checksum(secret)

    Counting.__name__ = base.__name__
    Counting.__qualname__ = base.__qualname__
    return Counting


class LifecycleRun:
    def __init__(self, cfg, ctx):
        import passlib.hash

        self.ctx = ctx
        self.ph = passlib.hash
        self.disabled = cfg["disabled"]
        policy = dict(cfg["policy"])
        self.names = list(policy["schemes"])
        self.real = [s for s in self.names if s not in ("unix_disabled", "django_disabled")]
        self.counter = {"n": 0}
        # the default scheme is given as a counting subclass, so that digest computations can be observed
        r0 = _call(build_context, policy)
        if r0[0] == "exc":
            raise RuntimeError(f"generated configuration refused: {r0[1]}: {r0[2]} -- {policy}")
        self.default = r0[1].default_scheme()
        from simkit.worlds.credstore import HEX32

        fam = [s for s in self.names if s in HEX32]
        shadowed = self.default in fam[1:]  # its hashes are read as an earlier scheme's: the dummy hash is verified by that one
        self.countable = (self.default != self.disabled and isinstance(getattr(passlib.hash, self.default), type) and not shadowed
                          and self.default not in ("plaintext", "ldap_plaintext"))
        if self.countable:
            objs = [make_counting(getattr(passlib.hash, s), self.counter) if s == self.default else s for s in self.names]
            policy["schemes"] = objs
        self.policy = policy
        self.cc = build_context(policy)
        self.fresh = True  # no dummy hash memoised yet
        self.ckw = {}  # context keywords every verify call carries once a scheme that takes them has been added
        self.marker = policy.get("unix_disabled__marker") or "!"
        self.users = []
        for u in cfg["users"]:
            self.users.append(self._make_record(u))
        self.shapes = set()
        self.kinds = set()

    def _hash(self, scheme, pw):
        H = getattr(self.ph, scheme)
        c = MIN_COST.get(scheme)
        if scheme in COSTED:
            c = COSTED[scheme][0] + (1 if scheme != "bsdi_crypt" else 2)
        with warnings.catch_warnings():
            warnings.simplefilter("ignore")
            return H.using(**({"rounds": c} if c is not None else {})).hash(pw)

    def _make_record(self, u):
        from simkit.worlds.credstore import HEX32

        shape = u["shape"]
        scheme = u["scheme"]
        if scheme in HEX32:
            # of several formats that claim the same strings the context reads a record as the first one configured
            scheme = [s for s in self.names if s in HEX32][0]
        h = self._hash(scheme, u["pw"])
        if shape == "maxlen" and self.names[-1] in ("plaintext", "ldap_plaintext"):
            # the longest record there is: the plaintext "hash" of a password of the maximum size
            scheme = self.names[-1]
            u = dict(u, pw="p" * 4096)
            h = self._hash(scheme, u["pw"])
            shape = "hash"
        elif shape == "maxlen":
            shape = "hash"
        rec = {"pw": u["pw"], "orig": h, "scheme": scheme}
        if shape == "hash":
            rec["cur"] = h
        elif shape == "none":
            rec["cur"] = None
        elif shape == "empty":
            rec["cur"] = ""
        elif shape == "bare_bang":
            rec["cur"] = "!"
        elif shape == "bare_star":
            rec["cur"] = "*"
        elif shape == "bang_hash":
            rec["cur"] = "!" + h
        elif shape == "star_hash":
            rec["cur"] = "*" + h
        else:
            rec["cur"] = "!" + "x" * 40  # django-style unusable password
        return rec

    # -- the reference grammar ---------------------------------------------------------------------------
    def parse(self, s):
        """-> ("none",) | ("enabled", hash) | ("disabled", embedded or None)"""
        if s is None:
            return ("none",)
        if self.disabled == "unix_disabled":
            if s == "" or s[0] in MARKERS:
                # the configured marker may be longer than one character (e.g. Solaris' "*LK*")
                if len(self.marker) > 1 and s.startswith(self.marker):
                    return ("disabled", s[len(self.marker):] or None)
                return ("disabled", s[1:] or None)
            return ("enabled", s)
        if s.startswith("!"):
            return ("disabled", None)  # django_disabled never embeds the original
        return ("enabled", s)

    def attribute(self, s):
        """the attribution rule, evaluated WITHOUT the context: the first configured scheme whose own identify() claims s"""
        for n in self.names:
            r = _call(getattr(self.ph, n).identify, s)
            if r == ("ok", True):
                return n
        return None

    def attributable(self, s):
        """the model only speaks about strings some scheme of the context claims -- and, for strings the grammar reads as
        disabled, only when the attribution rule gives them to the disabled-account scheme ('*' + 40 hex digits is also a
        mysql41 hash: such records are ambiguous by construction and left out). The context's own identify() is not
        consulted for this decision; it is judged against it."""
        a = self.attribute(s)
        r = _call(self.cc.identify, s)
        self.ctx.check(r == ("ok", a) or (a is None and r[0] == "ok" and r[1] is None), "C18", "record-attributed-to-wrong-scheme",
                       lambda: f"identify({s!r}) -> {r[:2]}; first configured scheme that claims it: {a} (order {self.names})",
                       scheme=self.disabled, want=str(a))
        if a is None:
            return False
        if a in ("unix_disabled", "django_disabled") and a != self.disabled:
            return False  # claimed by the context's SECOND disabled-account handler (e.g. '*...' next to django_disabled): outside the model
        if self.parse(s)[0] == "disabled":
            return a == self.disabled
        return a != self.disabled

    # -- ops -------------------------------------------------------------------------------------------------
    def run(self, ops):
        ctx = self.ctx
        for op in ops:
            ctx.op()
            rec = self.users[op["user"] % len(self.users)]
            self.kinds.add(op["op"])
            getattr(self, "op_" + op["op"])(op, rec)
            ctx.log(op["op"], op["user"], rec["cur"])
        ctx.key(self.disabled, self.names.index(self.disabled), sorted(self.shapes), sorted(self.kinds))

    def op_disable(self, op, rec, with_hash=True):
        ctx = self.ctx
        cur = rec["cur"]
        st = self.parse(cur)
        if cur is not None and not self.attributable(cur):
            return
        arg = cur if with_hash else None
        if arg is not None and op.get("as_bytes"):
            arg = arg.encode("utf-8")
        r = _call(self.cc.disable, arg) if arg is not None or not with_hash else _call(self.cc.disable)
        self.shapes.add(st[0] + ("+embedded" if st[0] == "disabled" and st[1] else ""))
        if st[0] == "disabled":
            ctx.fault("disable_twice")
            if not st[1]:
                ctx.fault("bare_marker" if cur else "empty_record")
        if st[0] == "none":
            ctx.fault("none_record")
        if r[0] == "exc":
            ctx.fail("C18", "disable-raises", f"disable({arg!r}) raised {r[1]}: {r[2]}", exc=r[1], record=st[0] + ("+embedded" if st[0] == "disabled" and st[1] else ""),
                     scheme=self.disabled)
        new = r[1]
        ctx.check(isinstance(new, str), "C18", "disable-result-type", repr(new))
        p = self.parse(new)
        ctx.check(p[0] == "disabled", "C18", "disable-result-not-disabled", f"disable({arg!r}) -> {new!r}", scheme=self.disabled)
        r2 = _call(self.cc.is_enabled, new)
        ctx.check(r2 == ("ok", False), "C18", "disabled-record-reported-enabled", f"is_enabled({new!r}) -> {r2[:2]}", scheme=self.disabled)
        if self.disabled == "unix_disabled":
            # exactly one marker, followed by the original when one was passed in (or was already embedded)
            want_embedded = None
            if with_hash:
                want_embedded = cur if st[0] == "enabled" else st[1] if st[0] == "disabled" else None
            ctx.check(new.startswith(self.marker) and (new[len(self.marker):] or None) == want_embedded, "C18", "disabled-record-shape",
                      lambda: f"disable({arg!r}) -> {new!r}; expected one marker + {want_embedded!r}", scheme=self.disabled)
        rec["cur"] = new
        self.judge_disabled(rec)
        ctx.nontrivial = True

    def op_disable_nohash(self, op, rec):
        self.op_disable(op, rec, with_hash=False)

    def judge_disabled(self, rec):
        """a disabled record verifies False for every password, incl. the empty one and the record text itself"""
        ctx = self.ctx
        cur = rec["cur"]
        # (also: text of <= 4096 characters but more UTF-8 bytes, and text that cannot be encoded at all -- a disabled record
        #  answers False without ever looking at the password)
        for i_, pw in enumerate((rec["pw"], "", cur, "wrong", cur[1:] if len(cur) > 1 else "x", "é" * 2100, "caf\udce9", "\ud800")):
            # (the caller's user category, when the application has some: a disabled record is disabled for every category)
            if len(pw) > 4096:
                continue  # (beyond the library's password size limit, another property's business: refused for any record)
            cat = [None, "admin", "staff", None, "guest"][(ctx.n_ops + i_) % 5]
            if cat:
                rc = _call(self.cc.verify, pw, cur, category=cat, **self.ckw)
                ctx.check(rc == ("ok", False), "C18", "disabled-record-verifies", f"verify({pw!r:.60}, {cur!r:.80}, category={cat!r}) -> {rc[:2]}", scheme=self.disabled)
                rc = _call(self.cc.verify_and_update, pw, cur, category=cat, **self.ckw)
                ctx.check(rc[0] == "ok" and rc[1][0] is False, "C18", "disabled-record-verifies", f"verify_and_update({pw!r:.60}, {cur!r:.80}, category={cat!r}) -> {rc[:2]}",
                          scheme=self.disabled)
            r = _call(self.cc.verify, pw, cur, **self.ckw)
            ctx.check(r == ("ok", False), "C18", "disabled-record-verifies", f"verify({pw!r:.60}, {cur!r}, {self.ckw}) -> {r[:2]}", scheme=self.disabled)
            r = _call(self.cc.verify_and_update, pw, cur, **self.ckw)
            ctx.check(r[0] == "ok" and r[1][0] is False, "C18", "disabled-record-verifies", f"verify_and_update({pw!r}, {cur!r}) -> {r[:2]}",
                      scheme=self.disabled)

    def op_enable(self, op, rec):
        ctx = self.ctx
        cur = rec["cur"]
        if cur is None or not self.attributable(cur):
            return
        st = self.parse(cur)
        arg = cur.encode("utf-8") if op.get("as_bytes") else cur
        r = _call(self.cc.enable, arg)
        self.shapes.add("enable:" + st[0] + ("+embedded" if st[0] == "disabled" and st[1] else ""))
        if st[0] == "enabled":
            # "returns it unchanged": the very value that was handed over, bytes as bytes
            ctx.check(r[0] == "ok" and type(r[1]) is type(arg) and r[1] == arg, "C18", "enable-changes-normal-hash", f"enable({arg!r}) -> {r[:2]}")
            if op.get("as_bytes") and self.names[-1] in ("plaintext", "ldap_plaintext"):
                # ... also a record that is not even text (a legacy plaintext record a driver hands back as latin-1 bytes)
                odd = b"caf\xe9-" + arg[-12:]
                r3 = _call(self.cc.enable, odd)
                ctx.check(r3[0] == "ok" and r3[1] == odd, "C18", "enable-changes-normal-hash", f"enable({odd!r}) -> {r3[:2]}")
            return
        if r[0] == "ok" and isinstance(r[1], bytes):
            r = ("ok", r[1].decode("utf-8"))  # (an original restored from a bytes record: text or bytes out is not fixed by the statement)
        if st[1]:
            ctx.check(r == ("ok", st[1]), "C18", "enable-does-not-restore-original", f"enable({cur!r}) -> {r[:2]}, expected {st[1]!r}",
                      scheme=self.disabled)
            rec["cur"] = st[1]
        else:
            ctx.check(r[0] == "exc" and isinstance(r[2], ValueError), "C18", "enable-without-original",
                      f"enable({cur!r}) (nothing embedded) -> {r[:2]}, expected ValueError", scheme=self.disabled)
        ctx.nontrivial = True

    def _login(self, rec, pw):
        ctx = self.ctx
        cur = rec["cur"]
        if cur is not None and not self.attributable(cur):
            return
        st = self.parse(cur)
        if st[0] == "none":
            return self.op_verify_none({}, rec)
        if len(pw) > 4096:
            return  # (beyond the library's password size limit)
        r = _call(self.cc.verify, pw, cur, **self.ckw)
        if st[0] == "disabled":
            ctx.check(r == ("ok", False), "C18", "disabled-record-verifies", f"verify({pw!r}, {cur!r}) -> {r[:2]}", scheme=self.disabled)
        elif cur == rec["orig"] and self.attribute(cur) == rec["scheme"]:
            ctx.check(r == ("ok", pw == rec["pw"]), "C18", "enabled-record-login", f"verify({pw!r}, {cur!r}) -> {r[:2]} (password is {rec['pw']!r})")
        else:
            # a string the grammar reads as an ordinary record but which is not the user's own hash (e.g. '' or '*...' next to
            # django_disabled with a plaintext scheme listed), or a plaintext record an earlier scheme claims (a 2-character
            # password is a des_crypt salt string): the answer is that scheme's business, nothing is judged here
            pass

    def op_login(self, op, rec):
        self._login(rec, rec["pw"])

    def op_login_empty(self, op, rec):
        self._login(rec, "")

    def op_login_self(self, op, rec):
        if rec["cur"]:
            self._login(rec, rec["cur"])

    def op_login_wrong(self, op, rec):
        self._login(rec, "wrong-" + rec["pw"])

    def op_is_enabled(self, op, rec):
        cur = rec["cur"]
        if cur is None or not self.attributable(cur):
            return
        st = self.parse(cur)
        r = _call(self.cc.is_enabled, cur)
        self.ctx.check(r == ("ok", st[0] == "enabled"), "C18", "is-enabled-answer", f"is_enabled({cur!r}) -> {r[:2]}", scheme=self.disabled)

    def op_needs_update(self, op, rec):
        cur = rec["cur"]
        if cur is None or not self.attributable(cur):
            return
        r = _call(self.cc.needs_update, cur)
        self.ctx.check(r[0] == "ok" and isinstance(r[1], bool), "C18", "needs-update-raises", f"needs_update({cur!r}) -> {r[:2]}")

    def op_verify_none(self, op, rec):
        """verification against a missing hash is False and costs a dummy verification"""
        ctx = self.ctx
        for fn, want in ((lambda: self.cc.verify(rec["pw"], None, **self.ckw), False),
                         (lambda: self.cc.verify_and_update(rec["pw"], None, **self.ckw), (False, None))):
            before = self.counter["n"]
            r = _call(fn)
            ctx.check(r == ("ok", want), "C18", "verify-none-answer", f"-> {r[:2]}, expected {want}")
            if self.countable:
                n = self.counter["n"] - before
                # one digest for the dummy verification, plus one more when the memoised dummy hash had to be made first
                exp = 2 if self.fresh else 1
                ctx.check(n == exp, "C18", "verify-none-costs-no-dummy-verification",
                          lambda: f"verify(pw, None) computed {n} digests of the default scheme ({self.default}); expected {exp} "
                                  f"({'first call after (re)load' if self.fresh else 'dummy hash memoised'})", fresh=self.fresh)
                self.fresh = False
        if self.default in ("des_crypt", "lmhash", "django_des_crypt", "ldap_des_crypt"):
            # the same context with the size-limit policy "refuse instead of truncating" on its default scheme: the library's own
            # dummy password is the library's business, a missing hash still answers False
            from passlib.context import CryptContext as _CC

            tw = _call(lambda: _CC(**dict(self.cc.to_dict(), **{self.default + "__truncate_error": True})))
            if tw[0] == "ok":
                for fn, want in ((lambda: tw[1].verify(rec["pw"][:5], None, **self.ckw), False), (lambda: tw[1].verify_and_update(rec["pw"][:5], None, **self.ckw), (False, None))):
                    r = _call(fn)
                    ctx.check(r == ("ok", want), "C18", "verify-none-answer", f"with {self.default}__truncate_error=True: -> {r[:2]}, expected {want}", pw="truncate-policy")
        # "always False": also for the one password an attacker can read in the library's source -- the fixed secret whose hash the
        # dummy verification compares against (str and bytes), and for the empty password
        from passlib.context import CryptContext

        dummy = getattr(CryptContext, "_dummy_secret", "too many secrets")
        for pw in (dummy, dummy.encode("utf-8") if isinstance(dummy, str) else dummy, "too many secrets", ""):
            for fn, want in ((lambda: self.cc.verify(pw, None, **self.ckw), False), (lambda: self.cc.verify_and_update(pw, None, **self.ckw), (False, None))):
                r = _call(fn)
                ctx.check(r == ("ok", want), "C18", "verify-none-answer", f"password {pw!r} against a missing hash -> {r[:2]}, expected {want}", pw="dummy-secret" if pw else "empty")
        ctx.nontrivial = True

    def op_policy_update(self, op, rec):
        d = dict(op["delta"])
        r = _call(self.cc.update, **d)
        if r[0] == "ok":
            self.policy = merge_policy(self.policy, d)
            self.fresh = True
            self.ctx.fault("policy_update")
            nd = self.cc.default_scheme()
            if nd != self.default:
                self.countable = False  # the counting subclass sits on the old default scheme only

    def op_neighbour(self, op, rec):
        """another part of the application builds ITS context / handler variant with another marker: both keep their own"""
        from passlib.context import CryptContext

        ctx = self.ctx
        mk = op["marker"]
        if op.get("via") == "using":
            r = _call(lambda: self.ph.unix_disabled.using(marker=mk).disable("$1$abcdefgh$" + "x" * 22))
        else:
            r = _call(lambda: CryptContext(["md5_crypt", "unix_disabled"], unix_disabled__marker=mk).disable("$1$abcdefgh$" + "x" * 22))
        ctx.fault("neighbour_context")
        ctx.check(r == ("ok", mk + "$1$abcdefgh$" + "x" * 22), "C18", "disabled-record-shape",
                  lambda: f"a second context with marker {mk!r}: disable() -> {r[:2]}", scheme="unix_disabled")
        if self.disabled == "unix_disabled":
            # ... and this context's next disable / enable still go by its own marker
            h = "$1$abcdefgh$" + "y" * 22
            if self.attributable(h) and self.parse(h)[0] == "enabled":
                d = _call(self.cc.disable, h)
                ctx.check(d == ("ok", self.marker + h), "C18", "disabled-record-shape",
                          lambda: f"after a neighbour context with marker {mk!r}: disable({h!r}) -> {d[:2]}, own marker {self.marker!r}", scheme=self.disabled)
                if d[0] == "ok":
                    e = _call(self.cc.enable, d[1])
                    ctx.check(e == ("ok", h), "C18", "enable-does-not-restore-original", f"enable({d[1]!r}) -> {e[:2]}", scheme=self.disabled)

    def op_add_user_scheme(self, op, rec):
        """reconfiguration on the live object: a scheme that takes a context keyword joins; from now on every login carries it"""
        if self.ckw or "plaintext" in self.names or "ldap_plaintext" in self.names:
            return
        new = self.names + [op["scheme"]]
        extra = {"default": op["scheme"]} if op.get("as_default") else {}  # ... and may become the scheme new (and dummy) hashes are made with
        r = _call(self.cc.update, schemes=[getattr(x, "name", x) if not isinstance(x, str) else x for x in self.policy["schemes"]] + [op["scheme"]], **extra)
        if r[0] == "ok":
            self.names = new
            self.policy = dict(self.policy, schemes=list(self.policy["schemes"]) + [op["scheme"]], **extra)
            if extra:
                self.default = op["scheme"]
            self.ckw = {"user": "someone"}
            self.fresh = True
            self.countable = False  # (the update rebuilt the records from names: the counting subclass is gone)
            self.ctx.fault("policy_update")

    def op_restart(self, op, rec):
        from passlib.context import CryptContext

        if op["form"] == "string" and not self.countable:
            r = _call(lambda: CryptContext.from_string(self.cc.to_string()))
        else:
            r = _call(lambda: CryptContext(**self.cc.to_dict(resolve=True)))
        if r[0] == "exc":
            self.ctx.fail("C18", "restart-raises", f"{r[1]}: {r[2]}")
        self.cc = r[1]
        self.fresh = True
        self.ctx.fault("restart")
