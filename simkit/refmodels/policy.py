"""PolicyModel -- independent evaluation of the documented CryptContext rules (DESIGN.md Appendix B).

Input: the flat configuration exactly as the generator built it ({"schemes": [...], "default": ...,
"deprecated": [...], "<scheme>__<option>": v, "<cat>__<scheme>__<option>": v, "<cat>__context__default": ...,
"<cat>__context__deprecated": [...], "vary_rounds": v}), and for every scheme a small record of facts about
its unconfigured handler: hard limits, own default cost, identify(), needs_update().
Costs of hash strings come from refmodels.extract.cost_of, never from passlib's parser.
"""

from __future__ import annotations

from simkit.refmodels.extract import cost_of

ROUND_OPTS = ("min_rounds", "max_rounds", "default_rounds", "vary_rounds", "rounds")


class SchemeFacts:
    def __init__(self, name, handler):
        self.name = name
        self.handler = handler  # the UNCONFIGURED handler: identify / own needs_update only
        self.has_rounds = handler is not None and "rounds" in getattr(handler, "setting_kwds", ())
        self.min = getattr(handler, "min_rounds", None) if self.has_rounds else None
        self.max = getattr(handler, "max_rounds", None) if self.has_rounds else None
        self.default = getattr(handler, "default_rounds", None) if self.has_rounds else None

    def clamp(self, v):
        if self.min is not None and v < self.min:
            v = self.min
        if self.max is not None and v > self.max:
            v = self.max
        return v


def _num(v):
    """numbers may be given as strings in a configuration"""
    if isinstance(v, str):
        v = v.strip()
        if v.endswith("%"):
            return float(v[:-1]) * 0.01
        return float(v) if "." in v else int(v)
    return v


def slot(k):
    """the configuration slot a key names: 'vary_rounds', 'all__vary_rounds' and 'context__...' spellings share slots"""
    parts = k.split("__")
    if len(parts) == 1:
        return (None, None, parts[0])
    if len(parts) == 2:
        cat, scheme, key = None, parts[0], parts[1]
    else:
        cat, scheme, key = parts[0] or None, parts[1], "__".join(parts[2:])
    if scheme in ("all", "context"):
        scheme = None
    return (cat, scheme, key)


def merge(base, delta):
    """base updated by delta the way CryptContext.update() does it: a new value REPLACES whatever spelling of the same slot
    the configuration held (a plain dict.update would keep both spellings, and their order would decide)"""
    taken = {slot(k) for k in delta if k != "schemes"}
    out = {k: v for k, v in base.items() if k == "schemes" or k in delta or slot(k) not in taken}
    out.update(delta)
    return out


class PolicyModel:
    def __init__(self, config: dict, facts: dict):
        self.schemes = list(config["schemes"])
        self.facts = facts
        self.ctxopt = {}  # (cat, key) -> value for default / deprecated
        self.opt = {}  # (cat, scheme|None, option) -> value
        self.categories = set()
        # settings that travel inside pre-configured hasher objects: the weakest layer, below every configuration key
        self.objopt = {(s, k): v for s, kw in (config.get("scheme_objects") or {}).items() for k, v in kw.items() if not k.startswith("_")}
        for k, v in config.items():
            if k in ("schemes", "scheme_objects"):
                continue
            parts = k.split("__")
            if len(parts) == 1:
                cat, scheme, key = None, None, parts[0]
            elif len(parts) == 2:
                cat, scheme, key = None, parts[0], parts[1]
                if scheme == "all":
                    scheme = None  # the deprecated 'all' pseudo-scheme: same slot as the bare context-wide spelling
            else:
                cat, scheme, key = parts
                if scheme in ("context", "all"):
                    scheme = None  # '<cat>__context__<key>' and the category-wide '<cat>__all__<option>'
                cat = cat or None
            if cat:
                self.categories.add(cat)
            if scheme is None and key in ("default", "deprecated"):
                if key == "deprecated" and isinstance(v, str):
                    v = [x.strip() for x in v.split(",") if x.strip()]
                self.ctxopt[(cat, key)] = v
            else:
                self.opt[(cat, scheme, key)] = v

    # -- rule 2/3 ---------------------------------------------------------------------------------
    def _dep_source(self, cat):
        if cat in self.categories and (cat, "deprecated") in self.ctxopt:
            return self.ctxopt[(cat, "deprecated")]
        return self.ctxopt.get((None, "deprecated"))

    def default(self, cat):
        if cat not in self.categories:
            cat = None
        d = self.ctxopt.get((cat, "default")) or self.ctxopt.get((None, "default"))
        if d:
            return d
        deps = self._dep_source(cat) or ()
        if "auto" in deps:
            return self.schemes[0]
        for s in self.schemes:
            if s not in deps:
                return s
        raise ValueError("no non-deprecated scheme")

    def deprecated(self, scheme, cat):
        if cat not in self.categories:
            cat = None
        src = self._dep_source(cat)
        if not src:
            return False
        if "auto" in src:
            return scheme != self.default(cat)
        return scheme in src

    # -- rule 1/4 ---------------------------------------------------------------------------------
    def option(self, scheme, cat, key):
        """global option at default category, then at cat, then scheme's at default category, then scheme's at cat"""
        if cat not in self.categories:
            cat = None
        val = None
        for c, s in ((None, None), (cat, None), (None, scheme), (cat, scheme)):
            if (c, s, key) in self.opt and (c is None or c == cat):
                val = self.opt[(c, s, key)]
        if val is None and key not in ("min_rounds", "max_rounds", "default_rounds", "rounds"):
            val = self.objopt.get((scheme, key))
        return val

    def _cost_opt(self, scheme, cat, key):
        """min_rounds / max_rounds / default_rounds as in force: the configuration's own key, else the configuration's 'rounds'
        (which pins all three unless given in the same layer), else what a pre-configured hasher object carries"""
        v = self.option(scheme, cat, key)
        if v is None:
            v = self.option(scheme, cat, "rounds")
        if v is None:
            v = self.objopt.get((scheme, key))
        if v is None:
            v = self.objopt.get((scheme, "rounds"))
        return v

    def window(self, scheme, cat):
        f = self.facts[scheme]
        if not f.has_rounds:
            return (None, None)
        # '<scheme>__rounds' sets default, minimum and maximum at once; each stays overridable by its own option (given at any level)
        lo = self._cost_opt(scheme, cat, "min_rounds")
        hi = self._cost_opt(scheme, cat, "max_rounds")
        lo = f.clamp(int(_num(lo))) if lo is not None else None
        hi = f.clamp(int(_num(hi))) if hi is not None else None
        return (lo, hi)

    def window_empty(self, scheme, cat):
        lo, hi = self.window(scheme, cat)
        return lo is not None and hi is not None and lo > hi

    def cost(self, scheme, cat):
        f = self.facts[scheme]
        if not f.has_rounds:
            return None
        d = self._cost_opt(scheme, cat, "default_rounds")
        d = f.clamp(int(_num(d))) if d is not None else f.default
        if d is None:
            return None
        lo, hi = self.window(scheme, cat)
        if lo is not None and d < lo:
            d = lo
        if hi is not None and d > hi:
            d = hi
        return d

    def varies(self, scheme, cat):
        v = self.option(scheme, cat, "vary_rounds")
        return bool(_num(v)) if v is not None else False

    # -- rule 5/6 ---------------------------------------------------------------------------------
    def attribute(self, h):
        for s in self.schemes:
            try:
                if self.facts[s].handler.identify(h):
                    return s
            except Exception:
                continue
        return None

    def cost_of(self, h, scheme):
        return cost_of(h, scheme)

    def needs_update(self, h, cat, scheme=None):
        """-> (bool, reason)"""
        s = scheme or self.attribute(h)
        if s is None:
            return (None, "unknown")
        if self.deprecated(s, cat):
            return (True, "deprecated")
        f = self.facts[s]
        if f.has_rounds:
            c = self.cost_of(h, s)
            lo, hi = self.window(s, cat)
            if c is not None:
                if lo is not None and c < lo:
                    return (True, "below-min")
                if hi is not None and c > hi:
                    return (True, "above-max")
        try:
            hnd = f.handler
            ver = self.option(s, cat, "version")
            if ver is not None and hasattr(hnd, "version"):
                hnd = hnd.using(version=int(_num(ver)))  # "the scheme itself flags it" is asked of the scheme as configured
            own = bool(hnd.needs_update(h))
        except Exception:
            own = False
        if own:
            return (True, "scheme-flags-it")
        return (False, "ok")
