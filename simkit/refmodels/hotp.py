"""Independent RFC 4226 / RFC 6238 reference and the reference matcher for property C14.

Written from the RFC text and from the statement of C14; shares no code with passlib.
"""

import hashlib
import hmac
import re
import struct

_ALGS = {"sha1": hashlib.sha1, "sha256": hashlib.sha256, "sha512": hashlib.sha512}


def ref_hotp(key: bytes, counter: int, alg: str, digits: int) -> str:
    mac = hmac.new(key, struct.pack(">Q", counter), _ALGS.get(alg, alg)).digest()  # (other names: whatever hashlib calls so)
    off = mac[-1] & 0x0F
    val = struct.unpack(">I", mac[off:off + 4])[0] & 0x7FFFFFFF
    return str(val % (10 ** digits)).zfill(digits)


def ref_counter(t: int, period: int) -> int:
    return t // period


_strip = re.compile(r"[\s\-=]")


def ref_normalize_token(token, digits):
    """returns the digit string, or None if the submission is not a code of the right length"""
    if isinstance(token, bool):
        return None
    if isinstance(token, int):
        if token < 0:
            return None
        s = str(token).zfill(digits)
    else:
        if isinstance(token, bytes):
            try:
                token = token.decode("utf-8")
            except UnicodeDecodeError:
                return None
        if not isinstance(token, str):
            return None
        s = _strip.sub("", token)
        if not s or not (s.isascii() and s.isdigit()):  # ASCII-strict: str.isdigit() alone takes other scripts and superscripts
            return None
    if len(s) != digits:
        return None
    return s


def ref_match(key, alg, digits, period, token, t, window, skew, last_counter):
    """-> ("malformed",) | ("invalid",) | ("used", counter) | ("accept", counter)

    t is the integer time the server read. Candidates: floor((t+skew-window)/period), but not
    before last_counter (and not below 0), up to floor((t+skew+window)/period), earliest first.
    """
    s = ref_normalize_token(token, digits)
    if s is None:
        return ("malformed",)
    lo = (t + skew - window) // period
    if last_counter is not None:
        lo = max(lo, last_counter)
    lo = max(lo, 0)
    hi = (t + skew + window) // period
    c = lo
    while c <= hi:
        if ref_hotp(key, c, alg, digits) == s:
            if last_counter is not None and c == last_counter:
                return ("used", c)
            return ("accept", c)
        c += 1
    return ("invalid",)
