"""Independent field extractor (DESIGN.md Appendix C).

One regular expression per palette format plus own decoders for the alphabets. For a stored-hash
string it returns None or (format, settings, salt value, digest value) -- exact about VALUES (cost,
salt bits, digest bits, algorithm variant), lenient about SPELLING only in the ways the formats
document or tolerate: hex case, unused padding bits, '=' padding, bcrypt 2a/2b/2y (one algorithm for
passwords < 256 bytes), zero-padded decimal in key=value fields. Shares no code with passlib.
"""

from __future__ import annotations

import base64
import re

H64 = "./0123456789ABCDEFGHIJKLMNOPQRSTUVWXYZabcdefghijklmnopqrstuvwxyz"
BC64 = "./ABCDEFGHIJKLMNOPQRSTUVWXYZabcdefghijklmnopqrstuvwxyz0123456789"
_H = "[./0-9A-Za-z]"


def _int(s, allow_zero_pad=False):
    """a decimal field: ASCII digits only (zero padding spells the same number; blanks, signs, underscores and non-ASCII digits
    -- everything else Python's int() reads -- are no spelling a format documents)"""
    if not (s.isascii() and s.isdigit()):
        raise ValueError
    return int(s)


def h64_int_le(s):
    """little-endian 6-bit groups (the crypt(3) integer encoding)"""
    v = 0
    for i, ch in enumerate(s):
        v |= H64.index(ch) << (6 * i)
    return v


def bc64_bits(s, nbits):
    """big-endian decode of a bcrypt-base64 string, keeping the first nbits (padding bits masked out)"""
    v = 0
    for ch in s:
        v = (v << 6) | BC64.index(ch)
    total = 6 * len(s)
    return v >> (total - nbits)


def ab64(s):
    """passlib's 'adapted base64': standard alphabet with '.' for '+', no padding. Strict about the alphabet (a character outside
    it is not part of any documented spelling); the unused low bits of the last character are read for the bits they carry"""
    t = s.replace(".", "+")
    if t.endswith("=") and 1 <= len(t) - len(t.rstrip("=")) <= 2:
        t = t.rstrip("=")  # (explicit base64 padding at the very end: the padding the format leaves out)
    if not re.fullmatch(r"[A-Za-z0-9+/]*", t, re.A) or len(t) % 4 == 1:
        raise ValueError
    return base64.b64decode(t + "=" * (-len(t) % 4))


def b64std(s):
    """standard base64, '=' padding at the end only (present or left out)"""
    t = s.rstrip("=")
    if len(s) - len(t) > 2 or not re.fullmatch(r"[A-Za-z0-9+/]*", t, re.A) or len(t) % 4 == 1:
        raise ValueError
    return base64.b64decode(t + "=" * (-len(t) % 4))


def _hex(s):
    if not re.fullmatch(r"[0-9a-fA-F]*", s) or len(s) % 2:
        raise ValueError
    return bytes.fromhex(s)


_RX = [
    ("bcrypt_sha256", re.compile(r"^\$bcrypt-sha256\$v=([0-9]+),t=(2[ab]?|2y),r=([0-9]+)\$(.{22})\$(.{31})\Z")),
    ("bcrypt_sha256_v1", re.compile(r"^\$bcrypt-sha256\$(2[ab]?|2y),([0-9]+)\$(.{22})\$(.{31})\Z")),
    ("bcrypt", re.compile(r"^\$(2[abxy]?)\$([0-9][0-9])\$(.{22})(.{31})\Z")),
    ("sha256_crypt", re.compile(rf"^\$5\$(?:rounds=([0-9]+)\$)?({_H}{{0,16}})\$({_H}{{43}})\Z")),
    ("sha512_crypt", re.compile(rf"^\$6\$(?:rounds=([0-9]+)\$)?({_H}{{0,16}})\$({_H}{{86}})\Z")),
    ("md5_crypt", re.compile(rf"^\$1\$({_H}{{0,8}})\$({_H}{{22}})\Z")),
    ("apr_md5_crypt", re.compile(rf"^\$apr1\$({_H}{{0,8}})\$({_H}{{22}})\Z")),
    ("sha1_crypt", re.compile(rf"^\$sha1\$([0-9]+)\$({_H}{{0,64}})\$({_H}{{28}})\Z")),
    ("pbkdf2_sha1", re.compile(r"^\$pbkdf2\$([0-9]+)\$([^$]*)\$([^$]+)\Z")),
    ("pbkdf2_sha256", re.compile(r"^\$pbkdf2-sha256\$([0-9]+)\$([^$]*)\$([^$]+)\Z")),
    ("pbkdf2_sha512", re.compile(r"^\$pbkdf2-sha512\$([0-9]+)\$([^$]*)\$([^$]+)\Z")),
    ("phpass", re.compile(rf"^\$[PH]\$({_H})({_H}{{8}})({_H}{{22}})\Z")),
    ("scrypt_7", re.compile(rf"^\$7\$({_H})({_H}{{5}})({_H}{{5}})([^$]*)\$({_H}+)\Z")),
    ("scrypt", re.compile(r"^\$scrypt\$ln=([0-9]+),r=([0-9]+),p=([0-9]+)\$([^$]*)\$([^$]+)\Z")),
    ("ldap_salted_sha1", re.compile(r"^\{SSHA\}(.+)\Z", re.I | re.S)),
    ("ldap_sha1", re.compile(r"^\{SHA\}(.+)\Z", re.I | re.S)),
    ("django_pbkdf2_sha256", re.compile(r"^pbkdf2_sha256\$([0-9]+)\$([^$]+)\$([^$]+)\Z", re.S)),
    ("django_salted_sha1", re.compile(r"^sha1\$([^$]*)\$([0-9a-fA-F]{40})\Z")),
    ("mysql41", re.compile(r"^\*([0-9a-fA-F]{40})\Z")),
    ("bsdi_crypt", re.compile(rf"^_({_H}{{4}})({_H}{{4}})({_H}{{11}})\Z")),
    ("des_crypt", re.compile(rf"^({_H}{{2}})({_H}{{11}})\Z")),
    ("sun_md5_crypt", re.compile(rf"^\$md5(?:,rounds=([0-9]+))?\$([^$]*)(\$\$|\$)({_H}{{22}})\Z")),
    ("ldap_salted_md5", re.compile(r"^\{SMD5\}(.+)\Z", re.I | re.S)),
    ("ldap_salted_sha256", re.compile(r"^\{SSHA256\}(.+)\Z", re.I | re.S)),
    ("ldap_salted_sha512", re.compile(r"^\{SSHA512\}(.+)\Z", re.I | re.S)),
    ("ldap_md5", re.compile(r"^\{MD5\}(.+)\Z", re.I | re.S)),
    ("django_salted_md5", re.compile(r"^md5\$([^$]*)\$([0-9a-fA-F]{32})\Z")),
    ("django_pbkdf2_sha1", re.compile(r"^pbkdf2_sha1\$([0-9]+)\$([^$]+)\$([^$]+)\Z", re.S)),
    ("atlassian_pbkdf2_sha1", re.compile(r"^\{PKCS5S2\}(.+)\Z", re.I | re.S)),
    ("grub_pbkdf2_sha512", re.compile(r"^grub\.pbkdf2\.sha512\.([0-9]+)\.([0-9a-fA-F]*)\.([0-9a-fA-F]+)\Z")),
    ("mssql2000", re.compile(r"^0[xX]0100([0-9a-fA-F]{8})([0-9a-fA-F]{40})([0-9a-fA-F]{40})\Z")),
    ("mssql2005", re.compile(r"^0[xX]0100([0-9a-fA-F]{8})([0-9a-fA-F]{40})\Z")),
    ("oracle11", re.compile(r"^S:([0-9a-fA-F]{40})([0-9a-fA-F]{20})\Z", re.I)),
    ("dlitz_pbkdf2_sha1", re.compile(rf"^\$p5k2\$([0-9a-fA-F]*)\$({_H}*)\$([^$]+)\Z")),
    ("django_des_crypt", re.compile(rf"^crypt\$({_H}*)\$({_H}{{2}})({_H}{{11}})\Z")),
    ("bigcrypt", re.compile(rf"^({_H}{{2}})((?:{_H}{{11}})+)\Z")),
    ("scram", re.compile(r"^\$scram\$([0-9]+)\$([^$]*)\$([^$]+)\Z")),
    ("cisco_type7", re.compile(r"^([ \t+_0-9]{2})((?:[0-9A-Fa-f]{2})*)\Z")),
    ("fshp", re.compile(r"^\{FSHP([0-9]+)\|([0-9]+)\|([0-9]+)\}([A-Za-z0-9+/]+={0,3})\Z")),
]


# a fixed prefix in front of another format's string (LDAP scheme names are case-insensitive)
_WRAPPED = {"ldap_md5_crypt": ("{CRYPT}", "md5_crypt", True), "ldap_sha256_crypt": ("{CRYPT}", "sha256_crypt", True),
            "ldap_sha512_crypt": ("{CRYPT}", "sha512_crypt", True), "ldap_sha1_crypt": ("{CRYPT}", "sha1_crypt", True),
            "ldap_des_crypt": ("{CRYPT}", "des_crypt", True), "ldap_bsdi_crypt": ("{CRYPT}", "bsdi_crypt", True),
            "ldap_bcrypt": ("{CRYPT}", "bcrypt", True), "django_bcrypt": ("bcrypt$", "bcrypt", False)}


def extract(s, only=None):
    """-> None | (format, settings tuple, salt, digest)"""
    if isinstance(s, bytes):
        try:
            s = s.decode("ascii")
        except UnicodeDecodeError:
            return None
    if not isinstance(s, str):
        return None
    if only and len(only) == 1 and only[0] in _WRAPPED:
        prefix, inner, nocase = _WRAPPED[only[0]]
        head = s[:len(prefix)]
        if not (head == prefix or (nocase and head.upper() == prefix.upper())):
            return None
        r = extract(s[len(prefix):], only=(inner,))
        return None if r is None else (only[0],) + tuple(r[1:])
    for name, rx in _RX:
        if only and name not in only and not (name == "bcrypt_sha256_v1" and "bcrypt_sha256" in only) and not (name == "scrypt_7" and "scrypt" in only):
            continue
        m = rx.match(s)
        if not m:
            continue
        try:
            r = _decode(name, m)
        except (ValueError, IndexError, KeyError):
            r = None
        if r is not None:
            return r
    return None


def scram_full(s):
    """all (algorithm, digest) pairs of a scram string plus rounds and salt: what verify(full=True) speaks about"""
    if isinstance(s, bytes):
        try:
            s = s.decode("ascii")
        except UnicodeDecodeError:
            return None
    m = dict(_RX)["scram"].match(s) if isinstance(s, str) else None
    if not m:
        return None
    try:
        pairs = []
        for part in m.group(3).split(","):
            alg, eq, dg = part.partition("=")
            if not eq:
                return None
            pairs.append((alg, ab64(dg)))
        return (_int(m.group(1)), ab64(m.group(2)), tuple(sorted(pairs)))
    except (ValueError, IndexError):
        return None


def _bc_variant(ident):
    return "2" if ident == "2" else "2x" if ident == "2x" else "2abY"


def _decode(name, m):
    g = m.groups()
    if name == "bcrypt":
        rounds = _int(g[1], allow_zero_pad=True)
        return ("bcrypt", (_bc_variant(g[0]), rounds), bc64_bits(g[2], 128), bc64_bits(g[3], 184))
    if name == "bcrypt_sha256":
        v = _int(g[0], allow_zero_pad=True)
        rounds = _int(g[2], allow_zero_pad=True)
        return ("bcrypt_sha256", (v, _bc_variant(g[1]), rounds), bc64_bits(g[3], 128), bc64_bits(g[4], 184))
    if name == "bcrypt_sha256_v1":
        rounds = _int(g[1], allow_zero_pad=True)
        return ("bcrypt_sha256", (1, _bc_variant(g[0]), rounds), bc64_bits(g[2], 128), bc64_bits(g[3], 184))
    if name in ("sha256_crypt", "sha512_crypt"):
        rounds = 5000 if g[0] is None else _int(g[0])
        return (name, (rounds,), g[1], g[2])
    if name in ("md5_crypt", "apr_md5_crypt"):
        return (name, (), g[0], g[1])
    if name == "sha1_crypt":
        return (name, (_int(g[0]),), g[1], g[2])
    if name.startswith("pbkdf2_"):
        return (name, (_int(g[0]),), ab64(g[1]), ab64(g[2]))
    if name == "phpass":
        # '$P$' and '$H$' name the same algorithm; the identifier does not feed the digest
        return (name, (H64.index(g[0]),), g[1], g[2])
    if name == "scrypt_7":
        # the '$7$' spelling: ln as one hash64 character, r and p as 30-bit little-endian hash64 numbers, the salt as raw text
        return ("scrypt", (H64.index(g[0]), h64_int_le(g[1]), h64_int_le(g[2])), g[3].encode("ascii"), g[4])
    if name == "scrypt":
        return (name, (_int(g[0], True), _int(g[1], True), _int(g[2], True)), b64std(g[3]), b64std(g[4]))
    if name == "ldap_salted_sha1":
        raw = b64std(g[0])
        if len(raw) < 20:
            raise ValueError
        return (name, (), raw[20:], raw[:20])
    if name == "ldap_sha1":
        raw = b64std(g[0])
        if len(raw) != 20:
            raise ValueError
        return (name, (), b"", raw)
    if name == "django_pbkdf2_sha256":
        return (name, (_int(g[0]),), g[1], b64std(g[2]))
    if name == "django_salted_sha1":
        return (name, (), g[0], _hex(g[1]))
    if name == "mysql41":
        return (name, (), b"", _hex(g[0]))
    if name == "bsdi_crypt":
        return (name, (h64_int_le(g[0]),), g[1], g[2])
    if name == "des_crypt":
        return (name, (), g[0], g[1])
    if name == "sun_md5_crypt":
        # the config text (rounds, salt and whether a '$' follows the salt) is what gets digested
        return (name, (0 if g[0] is None else _int(g[0]), g[2] == "$"), g[1], g[3])
    if name in ("ldap_salted_md5", "ldap_salted_sha256", "ldap_salted_sha512", "ldap_md5"):
        n = {"ldap_salted_md5": 16, "ldap_salted_sha256": 32, "ldap_salted_sha512": 64, "ldap_md5": 16}[name]
        raw = b64std(g[0])
        if len(raw) < n or (name == "ldap_md5" and len(raw) != n):
            raise ValueError
        return (name, (), raw[n:], raw[:n])
    if name == "django_salted_md5":
        return (name, (), g[0], _hex(g[1]))
    if name == "django_pbkdf2_sha1":
        return (name, (_int(g[0]),), g[1], b64std(g[2]))
    if name == "atlassian_pbkdf2_sha1":
        raw = b64std(g[0])
        if len(raw) != 48:
            raise ValueError
        return (name, (), raw[:16], raw[16:])
    if name == "grub_pbkdf2_sha512":
        return (name, (_int(g[0]),), _hex(g[1]), _hex(g[2]))
    if name == "mssql2000":
        # documented by the format: "only the second digest [of the upper-cased password] is used when verifying"; the first
        # one (case-sensitive, kept for forward compatibility) does not take part, so it is not part of the verified value
        return (name, (), _hex(g[0]), _hex(g[2]))
    if name == "mssql2005":
        return (name, (), _hex(g[0]), _hex(g[1]))
    if name == "oracle11":
        return (name, (), _hex(g[1]), _hex(g[0]))
    if name == "dlitz_pbkdf2_sha1":
        # rounds in hexadecimal; an EMPTY field is the format's way of writing its default of 400 (0x190), so '$p5k2$$' and
        # '$p5k2$190$' are one record. The salt is used as text; the digest is base64 with '.' for '+'
        return (name, (int(g[0], 16) if g[0] else 400,), g[1], ab64(g[2].replace("_", "/").replace("-", "+")))
    if name == "django_des_crypt":
        # 'crypt$<salt>$<des_crypt hash>'; Django >= 1.4 also writes an EMPTY salt field (the salt is the hash's first two characters
        # anyway) -- a documented second spelling of the same record; a non-empty field must agree with the hash
        # (Django 1.0 stored up to five characters there, of which only the first two -- repeated in the hash -- are the salt)
        if g[0] and g[0][:2] != g[1]:
            raise ValueError
        return (name, (), g[1], g[2])
    if name == "bigcrypt":
        return (name, (), g[0], g[1])
    if name == "scram":
        pairs = []
        for part in g[2].split(","):
            alg, eq, dg = part.partition("=")
            if not eq:
                raise ValueError
            pairs.append((alg, ab64(dg)))
        # documented trade-off of the format's verify(): by default only ONE digest takes part -- the first present of
        # sha-256, sha-512, sha-224, sha-384, sha-1; verify(full=True) checks all of them (scram_full() below)
        algs = dict(pairs)
        used = next((a for a in ("sha-256", "sha-512", "sha-224", "sha-384", "sha-1") if a in algs), None)
        if used is None or len(algs) != len(pairs):
            raise ValueError
        return (name, (_int(g[0]),), ab64(g[1]), (used, algs[used]))
    if name == "cisco_type7":
        # a reversible encoding, not a digest: what a type-7 string carries is the PASSWORD, XORed with a fixed public key starting
        # at offset 'salt' (0..52, wrapping). Two strings are the same record iff they decode to the same password (the key has
        # repeated letters, so e.g. '031C' and '001C' both spell "x")
        salt = _int(g[0])
        if not 0 <= salt <= 52:
            raise ValueError
        key = b"dsfd;kfoA,.iyewrkldJKDHSUBsgvca69834ncxv9873254k;fg87"
        enc = _hex(g[1])
        return (name, (), None, bytes(b ^ key[(salt + i) % len(key)] for i, b in enumerate(enc)))
    if name == "fshp":
        variant, ssize, rounds = _int(g[0]), _int(g[1]), _int(g[2])
        raw = base64.b64decode(g[3] + "=" * (-len(g[3]) % 4))
        dsize = {0: 20, 1: 32, 2: 48, 3: 64}[variant]  # KeyError -> not an fshp string
        if len(raw) != ssize + dsize:
            raise ValueError
        return (name, (variant, rounds), raw[:ssize], raw[ssize:])
    raise ValueError(name)


def extract_hex(s, n):
    """hex_md5 (32) / nthash (32) and friends: any case"""
    if isinstance(s, bytes):
        try:
            s = s.decode("ascii")
        except UnicodeDecodeError:
            return None
    if isinstance(s, str) and len(s) == n and re.fullmatch(r"[0-9a-fA-F]+", s):
        return ("hex", (), b"", bytes.fromhex(s))
    return None


# cost of a hash string for the policy model: (scheme family) -> integer, or None if the format has no cost
_COST_FIELD = {"bcrypt": 1, "bcrypt_sha256": 2, "sha256_crypt": 0, "sha512_crypt": 0, "sha1_crypt": 0, "pbkdf2_sha1": 0,
               "pbkdf2_sha256": 0, "pbkdf2_sha512": 0, "phpass": 0, "scrypt": 0, "django_pbkdf2_sha256": 0, "bsdi_crypt": 0, "fshp": 1,
               "django_pbkdf2_sha1": 0, "grub_pbkdf2_sha512": 0, "sun_md5_crypt": 0, "dlitz_pbkdf2_sha1": 0}


def cost_of(s, scheme):
    """cost (rounds) encoded in a hash string of the named scheme; None if the scheme has none"""
    base = scheme
    prefix = ""
    if scheme.startswith("ldap_") and scheme.endswith("_crypt"):
        base = scheme[5:]
        prefix = "{CRYPT}"
    if scheme == "ldap_bcrypt":
        base, prefix = "bcrypt", "{CRYPT}"
    if scheme == "django_bcrypt":
        base, prefix = "bcrypt", "bcrypt$"
    if base not in _COST_FIELD:
        return None
    if isinstance(s, bytes):
        s = s.decode("ascii")
    if prefix:
        if not s.startswith(prefix):
            return None
        s = s[len(prefix):]
    r = extract(s, only=(base,))
    if r is None:
        return None
    return r[1][_COST_FIELD[base]]
