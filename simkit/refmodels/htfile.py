"""Independent reader and document model for htpasswd / htdigest files (DESIGN.md Appendix D).

Written from the file grammar (Apache htpasswd/htdigest: one record per line, fields separated by
':', lines that are blank or whose first non-blank byte is '#' are not records, the first record of
a key wins). Shares no code with passlib.apache.
"""

from __future__ import annotations


class Malformed(Exception):
    pass


def read_lines(data: bytes, nfields: int):
    """-> list of ("text", raw_line) | ("rec", key, hash, raw_line) | ("dup", key, raw_line)"""
    out = []
    seen = set()
    pos = 0
    n = len(data)
    lineno = 0
    while pos < n:
        end = data.find(b"\n", pos)
        end = n if end < 0 else end + 1
        line = data[pos:end]
        pos = end
        lineno += 1
        body = line.lstrip(b" \t\n\r\x0b\x0c")
        if not body or body.startswith(b"#"):
            out.append(("text", line))
            continue
        fields = line.rstrip(b" \t\n\r\x0b\x0c").split(b":")
        if len(fields) != nfields:
            raise Malformed(f"line {lineno}: {len(fields)} fields")
        key = fields[0] if nfields == 2 else (fields[0], fields[1])
        if key in seen:
            out.append(("dup", key, line))
            continue
        seen.add(key)
        out.append(("rec", key, fields[-1], line))
    return out


def reader(data: bytes, nfields: int):
    """the database a file denotes: key -> hash, plus how often each key occurs as a record line"""
    recs = {}
    count = {}
    for item in read_lines(data, nfields):
        if item[0] == "rec":
            recs[item[1]] = item[2]
            count[item[1]] = count.get(item[1], 0) + 1
        elif item[0] == "dup":
            count[item[1]] = count.get(item[1], 0) + 1
    return recs, count


def render(key, h, nfields):
    if nfields == 2:
        return key + b":" + h + b"\n"
    return key[0] + b":" + key[1] + b":" + h + b"\n"


class DocModel:
    """what one HtpasswdFile/HtdigestFile object should hold"""

    def __init__(self, nfields):
        self.nfields = nfields
        self.recs: dict = {}
        self.untouched: list = []  # tokens from the last load still untouched: ("text", bytes) | ("rec", key)
        self.mtime_read = None  # mtime this object last read from / wrote to its file
        self.loaded_from = None

    def load(self, data: bytes):
        items = read_lines(data, self.nfields)  # may raise Malformed: state untouched
        recs = {}
        toks = []
        for it in items:
            if it[0] == "text":
                toks.append(("text", it[1]))
            elif it[0] == "rec":
                recs[it[1]] = it[2]
                toks.append(("rec", it[1]))
        # trailing blank lines are documented as not preserved
        while toks and toks[-1][0] == "text" and not toks[-1][1].strip():
            toks.pop()
        self.recs = recs
        self.untouched = toks

    def touch(self, key):
        self.untouched = [t for t in self.untouched if not (t[0] == "rec" and t[1] == key)]

    def set(self, key, h):
        existed = key in self.recs
        self.recs[key] = h
        self.touch(key)
        return existed

    def delete(self, key):
        existed = key in self.recs
        self.recs.pop(key, None)
        self.touch(key)
        return existed

    def expected_untouched_lines(self):
        """the untouched items as the lines they must appear as, in order (newline-insensitive)"""
        out = []
        for t in self.untouched:
            if t[0] == "text":
                out.append(t[1].rstrip(b"\r\n"))
            else:
                out.append(render(t[1], self.recs[t[1]], self.nfields).rstrip(b"\r\n"))
        return out


def is_subsequence(needles, hay):
    it = iter(hay)
    for n in needles:
        for h in it:
            if h == n:
                break
        else:
            return False
    return True
