"""simkit.seams -- the simulator-owned fronts of passlib's sources of nondeterminism and faults.

Nothing here edits /repo: each seam is installed by rebinding a module-level name (or an instance
attribute of the one shared SystemRandom) inside the forked child that executes a run.
"""

from __future__ import annotations

import sys
import types


# ---------------------------------------------------------------------------------------------
# crypt(3)
# ---------------------------------------------------------------------------------------------
class SimCrypt:
    """front of the real crypt(3): per-call outcome real | None | OSError | '*0' | ':' | '' |
    bytes | truncated | wrong-prefix; capability mask per hash prefix; call counter"""

    NONE_LIKE = ("none", "oserror", "star0", "colon", "empty")
    MALFORMED = ("truncated", "wrong_prefix", "garbage")

    def __init__(self, ctx=None):
        import passlib.utils as pu

        self.pu = pu
        self.real = pu._crypt
        self.ctx = ctx
        self.calls = 0
        self.armed = []  # list of fault kinds, one consumed per call
        self.lost = set()  # config prefixes crypt(3) has "stopped supporting"
        self.fired = []  # kinds fired since last reset_fired()
        self.on_call = None  # optional hook(secret, config) for schedulers

    def install(self):
        self.pu._crypt = self
        return self

    def uninstall(self):
        self.pu._crypt = self.real

    def arm(self, kind, n=1):
        self.armed.extend([kind] * n)

    def disarm(self):
        self.armed.clear()

    def reset_fired(self):
        f, self.fired = self.fired, []
        return f

    def __call__(self, secret, config):
        self.calls += 1
        if self.on_call:
            self.on_call(secret, config)
        for p in self.lost:
            if config.startswith(p):
                self.fired.append("capability_loss")
                if self.ctx:
                    self.ctx.fault("crypt_capability_loss")
                return None
        kind = self.armed.pop(0) if self.armed else "real"
        if kind == "real":
            return self.real(secret, config)
        self.fired.append(kind)
        if self.ctx:
            self.ctx.fault("crypt_" + kind)
        if kind == "none":
            return None
        if kind == "oserror":
            raise OSError(22, "Invalid argument")
        if kind == "star0":
            return "*0"
        if kind == "colon":
            return ":"
        if kind == "empty":
            return ""
        res = self.real(secret, config)
        if res is None:
            return None
        if kind == "bytes":
            return res.encode("ascii")
        if kind == "truncated":
            return res[:-3]
        if kind == "wrong_prefix":
            return ("$9$" + res[3:]) if res.startswith("$") else ("$" + res[1:])
        if kind == "garbage":
            return "x" * len(res)
        raise AssertionError(kind)


# ---------------------------------------------------------------------------------------------
# the `bcrypt` wheel
# ---------------------------------------------------------------------------------------------
class BcryptProxy(types.ModuleType):
    """stands in for the `bcrypt` module: real hashpw unless a fault is armed"""

    def __init__(self, ctx=None):
        super().__init__("bcrypt")
        import bcrypt as real

        self._real = real
        self._ctx = ctx
        self._armed = []
        self._fired = []
        self.__version__ = getattr(real, "__version__", "?")
        self.__about__ = getattr(real, "__about__", None)
        self.__spec__ = getattr(real, "__spec__", None)
        self.__file__ = getattr(real, "__file__", None)
        self.calls = 0

    def install(self):
        sys.modules["bcrypt"] = self
        import passlib.handlers.bcrypt as hb

        if getattr(hb, "_bcrypt", None) is not None:
            hb._bcrypt = self
        return self

    def arm(self, kind, n=1):
        self._armed.extend([kind] * n)

    def reset_fired(self):
        f, self._fired = self._fired, []
        return f

    def hashpw(self, secret, config):
        self.calls += 1
        kind = self._armed.pop(0) if self._armed else "real"
        if kind == "real":
            return self._real.hashpw(secret, config)
        self._fired.append(kind)
        if self._ctx:
            self._ctx.fault("bcrypt_" + kind)
        res = self._real.hashpw(secret, config)
        if kind == "truncated":
            return res[:-2]
        if kind == "wrong_prefix":
            return b"$9x$" + res[4:]
        if kind == "garbage":
            return b"x" * len(res)
        raise AssertionError(kind)

    def gensalt(self, *a, **k):
        return self._real.gensalt(*a, **k)

    def checkpw(self, *a, **k):
        return self._real.checkpw(*a, **k)

    def kdf(self, *a, **k):
        return self._real.kdf(*a, **k)


# ---------------------------------------------------------------------------------------------
# the process-wide random source
# ---------------------------------------------------------------------------------------------
class SimRandom:
    """owns passlib.utils.rng (ONE SystemRandom instance shared by utils.handlers, totp, pwd,
    handlers.django, handlers.cisco) by setting instance attributes getrandbits/random; every
    derived method (randrange, randint, choice, sample, shuffle) goes through getrandbits.

    modes: stream (from a random.Random), pinned (constant 0 bits -> first element / range
    minimum), max (all-one bits -> range maximum), zeros/ones/counter/single_bit (C06), scripted.
    Always records (method, k, answer)."""

    def __init__(self, seed=0, ctx=None):
        import random

        self._r = random.Random(seed)
        self.mode = "stream"
        self.record = []
        self.recording = False
        self.script = []
        self.counter = 0
        self.draws = 0
        self.bits = 0
        self.ctx = ctx
        self.flip = None  # (draw index, bit) -> flip that bit of that draw's answer

    def install(self):
        import passlib.utils as pu

        self.target = pu.rng
        pu.rng.getrandbits = self.getrandbits
        pu.rng.random = self.random
        pu.rng.randbytes = self.randbytes
        pu.rng._randbelow = self.randbelow
        return self

    def install_secrets(self):
        import secrets

        secrets._sysrand.getrandbits = self.getrandbits
        secrets._sysrand.random = self.random
        secrets._sysrand.randbytes = self.randbytes
        secrets._sysrand._randbelow = self.randbelow
        return self

    def reseed(self, seed):
        import random

        self._r = random.Random(seed)

    def getrandbits(self, k):
        if k < 0:
            raise ValueError("number of bits must be non-negative")
        if k == 0:
            return 0
        m = self.mode
        if m == "stream":
            v = self._r.getrandbits(k)
        elif m in ("pinned", "zeros", "min"):
            v = 0
        elif m in ("ones", "max"):
            v = (1 << k) - 1
        elif m == "counter":
            self.counter += 1
            v = self.counter & ((1 << k) - 1)
        elif m == "single_bit":
            self.counter += 1
            v = 1 << (self.counter % k)
        elif m == "scripted":
            v = (self.script.pop(0) if self.script else 0) & ((1 << k) - 1)
        else:
            raise AssertionError(m)
        if self.flip is not None and self.flip[0] == self.draws:
            v ^= 1 << (self.flip[1] % k)
        self.draws += 1
        self.bits += k
        if self.recording:
            self.record.append(("getrandbits", k, v))
        return v

    def randbelow(self, n):
        """stands in for Random._randbelow (an all-ones source would spin forever in CPython's
        rejection loop, so the extreme modes answer the range ends directly)"""
        m = self.mode
        if m in ("pinned", "zeros", "min"):
            v = 0
        elif m in ("ones", "max"):
            v = n - 1
        elif m == "counter":
            self.counter += 1
            v = self.counter % n
        elif m == "scripted":
            v = (self.script.pop(0) if self.script else 0) % n
        else:
            k = n.bit_length()
            rec, self.recording = self.recording, False
            v = self.getrandbits(k)
            while v >= n:
                v = self.getrandbits(k)
            self.recording = rec
        if self.recording:
            self.record.append(("randbelow", n, v))
        return v

    def random(self):
        return self.getrandbits(53) / (1 << 53)

    def randbytes(self, n):
        return self.getrandbits(n * 8).to_bytes(n, "little")


# ---------------------------------------------------------------------------------------------
# file system + mtime clock
# ---------------------------------------------------------------------------------------------
import errno as _errno
import os as _os


class _SimReadFile:
    def __init__(self, fs, path, data, fail_after):
        self.fs = fs
        self.path = path
        self.data = data
        self.pos = 0
        self.fail_after = fail_after  # None, or number of bytes after which reads raise EIO
        self.closed = False
        self.mid_hook = None  # (after_bytes, callable): a foreign writer acts once this reader has consumed that many bytes

    def _check(self):
        h = self.mid_hook
        if h is not None and self.pos >= h[0]:
            # the reader keeps seeing the content it opened (the writer replaced the file, as htpasswd(1) and editors do)
            self.mid_hook = None
            self.fs._fired("write_during_read")
            h[1]()
        if self.fail_after is not None and self.pos >= self.fail_after:
            self.fs._fired("read_error")
            raise OSError(_errno.EIO, "Input/output error", self.path)

    def readline(self):
        self._check()
        if self.pos >= len(self.data):
            return b""
        end = self.data.find(b"\n", self.pos)
        end = len(self.data) if end < 0 else end + 1
        line = self.data[self.pos:end]
        self.pos = end
        return line

    def read(self, n=-1):
        self._check()
        if n is None or n < 0:
            n = len(self.data) - self.pos
        chunk = self.data[self.pos:self.pos + n]
        self.pos += len(chunk)
        if self.fail_after is not None and self.pos > self.fail_after:
            self.fs._fired("read_error")
            raise OSError(_errno.EIO, "Input/output error", self.path)
        return chunk

    def __iter__(self):
        return self

    def __next__(self):
        line = self.readline()
        if not line:
            raise StopIteration
        return line

    def close(self):
        self.closed = True

    def __enter__(self):
        return self

    def __exit__(self, *a):
        self.close()
        return False


class _SimTextReadFile(_SimReadFile):
    """text-mode view: lines are decoded as they are read, so a bad byte raises when it is reached"""

    def __init__(self, fs, path, data, fail_after, encoding):
        super().__init__(fs, path, data, fail_after)
        self.encoding = encoding or "utf-8"

    def readline(self):
        return super().readline().decode(self.encoding)

    def read(self, n=-1):
        return super().read(-1).decode(self.encoding)

    def __next__(self):
        line = super().readline()
        if not line:
            raise StopIteration
        return line.decode(self.encoding)


class _SimWriteFile:
    def __init__(self, fs, path, fail_after, err):
        self.fs = fs
        self.path = path
        self.fail_after = fail_after
        self.err = err
        self.written = 0
        self.closed = False

    def write(self, b):
        b = bytes(b)
        if self.fail_after is not None and self.written + len(b) > self.fail_after:
            keep = max(0, self.fail_after - self.written)
            self.fs._append(self.path, b[:keep])  # short write: part of the data reaches the disk
            self.written += keep
            self.fs._fired("write_error_" + ("enospc" if self.err == _errno.ENOSPC else "eio"))
            raise OSError(self.err, _os.strerror(self.err), self.path)
        self.fs._append(self.path, b)
        self.written += len(b)
        return len(b)

    def writelines(self, lines):
        for line in lines:
            self.write(line)

    def flush(self):
        pass

    def close(self):
        self.closed = True

    def __enter__(self):
        return self

    def __exit__(self, *a):
        self.close()
        return False


class SimFS:
    """path -> bytes + mtime, with an mtime clock of configurable granularity and armed I/O faults"""

    def __init__(self, granularity=1.0, start=1_000_000.0, ctx=None):
        self.files: dict[str, bytes] = {}
        self.mtimes: dict[str, float] = {}
        self.gran = granularity
        self.now = start
        self.ctx = ctx
        self.armed = None  # {"kind": open_error|read_error|write_error, ...}: consumed by the next matching access
        self.fired = []
        self.opens = 0

    # -- clock --------------------------------------------------------------------------------
    def tick(self, dt):
        self.now += dt

    def stamp(self):
        g = self.gran
        return int(self.now / g) * g if g >= 1 else round(int(self.now / g) * g, 9)

    # -- internals ------------------------------------------------------------------------------
    def _fired(self, kind):
        self.fired.append(kind)
        if self.ctx:
            self.ctx.fault("io_" + kind)

    def _append(self, path, b):
        self.files[path] = self.files.get(path, b"") + b
        self.mtimes[path] = self.stamp()

    def reset_fired(self):
        f, self.fired = self.fired, []
        return f

    # -- direct access for the simulated external editor ----------------------------------------
    def put(self, path, data):
        self.files[path] = bytes(data)
        self.mtimes[path] = self.stamp()

    def get(self, path):
        return self.files.get(path)

    # -- the seams --------------------------------------------------------------------------------
    def open(self, path, mode="r", *a, **k):
        path = _os.fspath(path)
        self.opens += 1
        arm = self.armed
        if arm and arm["kind"] == "open_error":
            self.armed = None
            self._fired("open_error")
            raise OSError(arm["errno"], _os.strerror(arm["errno"]), path)
        if "b" not in mode and not mode.startswith("r"):
            raise ValueError("SimFS: text-mode writing not modelled")
        if mode.startswith("r"):
            if path not in self.files:
                raise FileNotFoundError(_errno.ENOENT, "No such file or directory", path)
            fail_after = None
            if arm and arm["kind"] == "read_error":
                self.armed = None
                fail_after = arm["after"] % (len(self.files[path]) + 1)
            if "b" not in mode:
                fh = _SimTextReadFile(self, path, self.files[path], fail_after, k.get("encoding"))
            else:
                fh = _SimReadFile(self, path, self.files[path], fail_after)
            if arm and arm["kind"] == "write_during_read":
                self.armed = None
                fh.mid_hook = (arm["after"] % (len(self.files[path]) + 1), arm["action"])
            return fh
        if mode.startswith("w"):
            fail_after = None
            err = _errno.EIO
            if arm and arm["kind"] == "write_error":
                self.armed = None
                fail_after = arm["after"]
                err = arm.get("errno", _errno.EIO)
            self.files[path] = b""  # O_TRUNC
            self.mtimes[path] = self.stamp()
            return _SimWriteFile(self, path, fail_after, err)
        raise ValueError(f"SimFS: mode {mode!r} not modelled")

    def getmtime(self, path):
        path = _os.fspath(path)
        if path not in self.files:
            raise FileNotFoundError(_errno.ENOENT, "No such file or directory", path)
        return self.mtimes[path]

    def os_shim(self):
        fs = self

        class _Path:
            def __getattr__(self, name):
                return getattr(_os.path, name)

            @staticmethod
            def getmtime(path):
                return fs.getmtime(path)

            @staticmethod
            def exists(path):
                return _os.fspath(path) in fs.files

        class _Os:
            path = _Path()

            def __getattr__(self, name):
                return getattr(_os, name)

        return _Os()
