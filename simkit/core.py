"""simkit.core -- seeds, run context, isolated execution, batch driver, shrinker, replay.

Rules enforced here (DESIGN.md 3.1, 3.2, 3.7):
  * one integer (the run seed) decides a run; a run = generate(program) + execute(program)
  * every run executes in a child forked from a quiescent template process, so no state
    (caches, chosen backends, first-use objects) leaks from one run into the next
  * logging never draws from the PRNG and never reads a clock
  * harness failures (exceptions in the harness, timeouts) are reported as HARNESS-ERROR,
    never as VIOLATION and never as success
"""

from __future__ import annotations

import faulthandler
import hashlib
import json
import os
import random
import select
import signal
import sys
import time
import traceback

FORMAT = 1


# ---------------------------------------------------------------------------------------------
# seeds
# ---------------------------------------------------------------------------------------------
def run_seed(verif_seed: int, prop: str, world: str, index: int) -> int:
    h = hashlib.sha256(f"{verif_seed}/{prop}/{world}/{index}".encode()).digest()
    return int.from_bytes(h[:8], "big")


# ---------------------------------------------------------------------------------------------
# canonical json (bytes -> {"b": hex}; sets sorted; tuples -> lists)
# ---------------------------------------------------------------------------------------------
def _default(o):
    if isinstance(o, (bytes, bytearray)):
        return {"b": bytes(o).hex()}
    if isinstance(o, (set, frozenset)):
        return sorted(o, key=repr)
    if isinstance(o, BaseException):
        return {"exc": type(o).__name__}
    if isinstance(o, type):
        return {"type": o.__name__}
    return {"repr": type(o).__name__}


def cjson(obj) -> str:
    return json.dumps(obj, sort_keys=True, default=_default, separators=(",", ":"))


def enc(x):
    """make a value JSON-able for programs (bytes -> {"b": hex})"""
    if isinstance(x, (bytes, bytearray)):
        return {"b": bytes(x).hex()}
    return x


def dec(x):
    """inverse of enc"""
    if isinstance(x, dict) and set(x) == {"b"}:
        return bytes.fromhex(x["b"])
    return x


# ---------------------------------------------------------------------------------------------
# violations and the per-run context
# ---------------------------------------------------------------------------------------------
class Violation(Exception):
    def __init__(self, prop, invariant, detail="", **attrs):
        super().__init__(f"{prop}:{invariant}: {detail}")
        self.prop = prop
        self.invariant = invariant
        self.detail = detail
        self.attrs = attrs


class HarnessError(Exception):
    pass


class KnownStop(Exception):
    """the run hit a listed known finding at a point where it cannot continue"""


class Ctx:
    """what a world's executor talks to during one run"""

    def __init__(self, prop: str, world: str):
        self.prop = prop
        self.world = world
        self._h = hashlib.sha256()
        self.n_ops = 0
        self.n_checks = 0
        self.faults: dict[str, int] = {}
        self.probes: dict[str, int] = {}
        self.sim_time = 0.0
        self._key: list = []
        self.nontrivial = False
        self.extra: dict = {}
        self.foreign = None
        self.known_hits: dict[str, int] = {}
        self.events: list | None = None  # filled only when tracing for a replay / debug

    # -- event log -------------------------------------------------------------------------
    def log(self, *items):
        s = cjson(items)
        self._h.update(s.encode())
        self._h.update(b"\n")
        if self.events is not None:
            self.events.append(s)

    def op(self, n=1):
        self.n_ops += n

    # -- invariants ------------------------------------------------------------------------
    def check(self, cond, prop, invariant, detail="", **attrs):
        self.n_checks += 1
        if not cond:
            if callable(detail):
                detail = detail()
            if prop != self.prop:
                # an invariant of another property (judged by that property's own check): note it
                # and go on, so that this property's exploration is not cut short
                if self.foreign is None:
                    self.foreign = {"property": prop, "invariant": invariant, "attrs": attrs, "detail": str(detail)[:500]}
                return False
            sig = {"world": self.world, "invariant": invariant}
            sig.update(attrs)
            f = match_finding(KNOWN, prop, sig)
            if f is not None:
                # a listed known finding: count it and keep exploring (a different violation still ends the run)
                self.known_hits[f["id"]] = self.known_hits.get(f["id"], 0) + 1
                self.log("known-finding", f["id"])
                return False
            raise Violation(prop, invariant, detail, **attrs)
        return True

    def fail(self, prop, invariant, detail="", **attrs):
        """a violation after which the run cannot go on"""
        self.n_checks += 1
        if prop == self.prop:
            sig = {"world": self.world, "invariant": invariant}
            sig.update(attrs)
            f = match_finding(KNOWN, prop, sig)
            if f is not None:
                self.known_hits[f["id"]] = self.known_hits.get(f["id"], 0) + 1
                self.log("known-finding", f["id"])
                raise KnownStop(f["id"])
        raise Violation(prop, invariant, detail, **attrs)

    # -- reach counters --------------------------------------------------------------------
    def fault(self, kind, n=1):
        self.faults[kind] = self.faults.get(kind, 0) + n

    def probe(self, name, n=1):
        self.probes[name] = self.probes.get(name, 0) + n

    def key(self, *parts):
        self._key.append(parts)

    def digest(self):
        return self._h.hexdigest()


def signature(world, viol):
    sig = {"world": world, "invariant": viol["invariant"]}
    sig.update(viol.get("attrs") or {})
    return sig


def execute(world_mod, program, prop, trace=False):
    """run one program against the real code; returns a JSON-able outcome dict"""
    ctx = Ctx(prop, world_mod.NAME)
    if trace:
        ctx.events = []
    ctx.log("program", program)
    viol = None
    foreign = None
    try:
        world_mod.execute(program, ctx)
        foreign = ctx.foreign
    except KnownStop:
        foreign = ctx.foreign
    except Violation as v:
        d = {"property": v.prop, "invariant": v.invariant, "attrs": v.attrs, "detail": str(v.detail)[:2000]}
        ctx.log("violation", d["property"], d["invariant"], d["attrs"])
        if v.prop == prop:
            viol = d
        else:
            foreign = ctx.foreign or d
    out = {
        "violation": viol,
        "foreign": foreign,
        "digest": ctx.digest(),
        "ops": ctx.n_ops,
        "checks": ctx.n_checks,
        "faults": ctx.faults,
        "probes": ctx.probes,
        "sim_time": ctx.sim_time,
        "key": hashlib.sha1(cjson(ctx._key).encode()).hexdigest()[:12],
        "nontrivial": bool(ctx.nontrivial),
        "extra": ctx.extra,
        "known_hits": ctx.known_hits,
    }
    if trace:
        out["events"] = ctx.events
    rp = getattr(ctx, "replay_program", None)
    if rp is not None and (viol or foreign):
        out["replay_program"] = rp
    return out


# ---------------------------------------------------------------------------------------------
# isolated execution: fork a child from the (quiescent) current process for every run
# ---------------------------------------------------------------------------------------------
def _read_all(fd, timeout, pid):
    chunks = []
    deadline = time.monotonic() + timeout
    while True:
        left = deadline - time.monotonic()
        if left <= 0:
            try:
                os.kill(pid, signal.SIGKILL)
            except ProcessLookupError:
                pass
            return None
        r, _, _ = select.select([fd], [], [], left)
        if not r:
            continue
        b = os.read(fd, 1 << 16)
        if not b:
            break
        chunks.append(b)
    return b"".join(chunks)


_NESTED = False


def isolated(fn, timeout=60.0):
    """call fn() in a forked child; returns its JSON-able result, or {"harness_error": ...}"""
    rfd, wfd = os.pipe()
    sys.stdout.flush()
    sys.stderr.flush()
    pid = os.fork()
    if pid == 0:
        code = 0
        try:
            os.close(rfd)
            global _NESTED
            if not _NESTED:
                # (only in the outermost child: after fork() faulthandler's watchdog thread no longer exists, and
                #  re-arming it would wait for that thread forever)
                try:
                    faulthandler.enable()
                    faulthandler.dump_traceback_later(max(1.0, timeout - 1.0), exit=False)
                except Exception:
                    pass
            _NESTED = True
            try:
                res = fn()
            except BaseException as e:  # harness failure, reported as such
                res = {"harness_error": f"{type(e).__name__}: {e}", "traceback": traceback.format_exc()[-4000:]}
            data = cjson(res).encode()
            view = memoryview(data)
            while view:
                n = os.write(wfd, view[: 1 << 16])
                view = view[n:]
            os.close(wfd)
        except BaseException:
            code = 70
        finally:
            os._exit(code)
    os.close(wfd)
    data = _read_all(rfd, timeout, pid)
    os.close(rfd)
    try:
        _, status = os.waitpid(pid, 0)
    except ChildProcessError:
        status = 0
    if data is None:
        return {"harness_error": f"timeout after {timeout}s"}
    if not data:
        return {"harness_error": f"child died without result (status {status})"}
    try:
        return json.loads(data)
    except Exception as e:
        return {"harness_error": f"unreadable child result: {e}"}


def run_program(world_mod, program, prop, timeout=60.0, trace=False):
    return isolated(lambda: execute(world_mod, program, prop, trace=trace), timeout=timeout)


def run_index(world_mod, prop, tier, verif_seed, index, timeout=60.0, want_program=False):
    """generate + execute run <index> in an isolated child"""

    def job():
        seed = run_seed(verif_seed, prop, world_mod.NAME, index)
        rng = random.Random(seed)
        program = world_mod.generate(rng, prop, tier)
        out = execute(world_mod, program, prop)
        out["run_seed"] = seed
        out["index"] = index
        if want_program or out["violation"] or out["foreign"]:
            out["program"] = out.pop("replay_program", None) or program
        return out

    return isolated(job, timeout=timeout)


# ---------------------------------------------------------------------------------------------
# batch driver
# ---------------------------------------------------------------------------------------------
def _merge_counts(dst, src):
    for k, v in src.items():
        dst[k] = dst.get(k, 0) + v


def _chunk_worker(args):
    (world_name, prop, tier, verif_seed, indices, timeout, deadline, want_digests, sample_idx) = args
    world_mod = load_world(world_name)
    agg = {
        "runs": 0, "ops": 0, "checks": 0, "sim_time": 0.0, "faults": {}, "probes": {},
        "keys": set(), "nontrivial": 0, "violations": [], "foreign": [], "errors": [],
        "samples": [], "digests": {}, "extra": {}, "skipped": 0, "known": {},
    }
    for i in indices:
        if deadline and time.time() > deadline:
            agg["skipped"] += 1
            continue
        out = run_index(world_mod, prop, tier, verif_seed, i, timeout=timeout, want_program=(i in sample_idx))
        if "harness_error" in out:
            agg["errors"].append({"index": i, "error": out["harness_error"], "traceback": out.get("traceback", "")})
            continue
        agg["runs"] += 1
        agg["ops"] += out["ops"]
        agg["checks"] += out["checks"]
        agg["sim_time"] += out["sim_time"]
        _merge_counts(agg["faults"], out["faults"])
        _merge_counts(agg["probes"], out["probes"])
        for fid in out.get("known_hits") or {}:
            agg["known"][fid] = agg["known"].get(fid, 0) + 1
        for k, v in (out.get("extra") or {}).items():
            if isinstance(v, dict):
                _merge_counts(agg["extra"].setdefault(k, {}), v)
            elif isinstance(v, (int, float)):
                agg["extra"][k] = agg["extra"].get(k, 0) + v
            elif isinstance(v, list):
                s = agg["extra"].setdefault(k, [])
                for x in v:
                    if x not in s and len(s) < 4000:
                        s.append(x)
        if out["nontrivial"]:
            agg["nontrivial"] += 1
            agg["keys"].add(out["key"])
        if want_digests:
            agg["digests"][i] = out["digest"]
        if out["violation"]:
            agg["violations"].append({"index": i, "run_seed": out["run_seed"], "violation": out["violation"],
                                      "program": out["program"], "digest": out["digest"]})
        if out["foreign"]:
            agg["foreign"].append({"index": i, "violation": out["foreign"]})
        if i in sample_idx and "program" in out:
            agg["samples"].append({"index": i, "run_seed": out["run_seed"], "program": out["program"]})
    agg["keys"] = sorted(agg["keys"])
    return agg


_WORLDS = {
    "totp": "simkit.worlds.totp",
    "htfile": "simkit.worlds.htfile",
    "lazyinit": "simkit.worlds.lazyinit",
    "credstore": "simkit.worlds.credstore",
    "backends": "simkit.worlds.backends",
    "derive": "simkit.worlds.derive",
    "entropy": "simkit.worlds.entropy",
}


def load_world(name):
    import importlib

    return importlib.import_module(_WORLDS[name])


def run_batch(world_name, prop, tier, verif_seed, nruns, jobs, run_timeout, wall_cap, want_digests=False,
              first_index=0, progress=None):
    """execute runs first_index .. first_index+nruns-1 over <jobs> worker processes"""
    import multiprocessing as mp
    from concurrent.futures import ProcessPoolExecutor, as_completed

    t0 = time.time()
    deadline = t0 + wall_cap if wall_cap else None
    indices = list(range(first_index, first_index + nruns))
    # small chunks, interleaved, so the wall cap trims the tail evenly and the set of executed
    # indices is a prefix-like set rather than whole blocks
    nchunks = max(jobs * 8, 1)
    chunks = [indices[k::nchunks] for k in range(nchunks)]
    chunks = [c for c in chunks if c]
    sample_idx = set(indices[:3])
    total = {
        "runs": 0, "ops": 0, "checks": 0, "sim_time": 0.0, "faults": {}, "probes": {},
        "keys": set(), "nontrivial": 0, "violations": [], "foreign": [], "errors": [],
        "samples": [], "digests": {}, "extra": {}, "skipped": 0, "known": {},
    }
    ctx = mp.get_context("fork")
    with ProcessPoolExecutor(max_workers=jobs, mp_context=ctx) as pool:
        futs = [pool.submit(_chunk_worker, (world_name, prop, tier, verif_seed, c, run_timeout, deadline,
                                            want_digests, sample_idx)) for c in chunks]
        for f in as_completed(futs):
            try:
                agg = f.result()
            except BaseException as e:  # broken pool etc.
                total["errors"].append({"index": -1, "error": f"worker failed: {type(e).__name__}: {e}", "traceback": ""})
                continue
            for k in ("runs", "ops", "checks", "nontrivial", "skipped"):
                total[k] += agg[k]
            total["sim_time"] += agg["sim_time"]
            _merge_counts(total["faults"], agg["faults"])
            _merge_counts(total["probes"], agg["probes"])
            _merge_counts(total["known"], agg["known"])
            for k, v in agg["extra"].items():
                if isinstance(v, dict):
                    _merge_counts(total["extra"].setdefault(k, {}), v)
                elif isinstance(v, list):
                    s = total["extra"].setdefault(k, [])
                    for x in v:
                        if x not in s and len(s) < 4000:
                            s.append(x)
                else:
                    total["extra"][k] = total["extra"].get(k, 0) + v
            total["keys"].update(agg["keys"])
            for k in ("violations", "foreign", "errors", "samples"):
                total[k].extend(agg[k])
            total["digests"].update(agg["digests"])
            if progress:
                progress(total)
    total["wall_s"] = time.time() - t0
    total["samples"].sort(key=lambda s: s["index"])
    total["violations"].sort(key=lambda v: v["index"])
    return total


# ---------------------------------------------------------------------------------------------
# shrinking
# ---------------------------------------------------------------------------------------------
def shrink(world_mod, program, prop, sig, budget=300, timeout=60.0, log=None):
    """delta-debug the op list, then per-op / cfg simplification, keeping the same signature"""
    world = world_mod.NAME
    spent = [0]
    cache = {}

    def same(prog):
        key = hashlib.sha1(cjson(prog).encode()).hexdigest()
        if key in cache:
            return cache[key]
        if spent[0] >= budget:
            return False
        spent[0] += 1
        out = run_program(world_mod, prog, prop, timeout=timeout)
        ok = bool(out.get("violation")) and signature(world, out["violation"]) == sig
        cache[key] = ok
        return ok

    def with_ops(ops):
        p = dict(program_cur)
        p["ops"] = ops
        return p

    program_cur = json.loads(cjson(program))
    ops = list(program_cur.get("ops", []))
    # phase 1: ddmin over ops
    n = 2
    while len(ops) >= 2 and spent[0] < budget:
        size = max(1, -(-len(ops) // n))
        reduced = False
        for start in range(0, len(ops), size):
            cand = ops[:start] + ops[start + size:]
            if cand != ops and same(with_ops(cand)):
                ops = cand
                n = max(n - 1, 2)
                reduced = True
                break
        if not reduced:
            if size == 1:
                break
            n = min(n * 2, len(ops))
    if len(ops) == 1 and spent[0] < budget and same(with_ops([])):
        ops = []
    program_cur["ops"] = ops
    # phase 2: per-op simplification
    simp = getattr(world_mod, "simplify_op", None)
    if simp:
        changed = True
        rounds = 0
        while changed and spent[0] < budget and rounds < 4:
            changed = False
            rounds += 1
            for i in range(len(ops)):
                for cand_op in simp(ops[i]) or ():
                    cand = ops[:i] + [cand_op] + ops[i + 1:]
                    if same(with_ops(cand)):
                        ops = cand
                        program_cur["ops"] = ops
                        changed = True
                        break
    # phase 3: cfg simplification
    simpc = getattr(world_mod, "simplify_cfg", None)
    if simpc:
        changed = True
        rounds = 0
        while changed and spent[0] < budget and rounds < 4:
            changed = False
            rounds += 1
            for cand_cfg in simpc(program_cur.get("cfg", {})) or ():
                p = dict(program_cur)
                p["cfg"] = cand_cfg
                if same(p):
                    program_cur = p
                    changed = True
                    break
    if log:
        log(f"shrink: {len(program.get('ops', []))} -> {len(program_cur.get('ops', []))} ops in {spent[0]} executions")
    return program_cur, spent[0]


# ---------------------------------------------------------------------------------------------
# known findings
# ---------------------------------------------------------------------------------------------
def load_findings(path):
    try:
        with open(path) as fh:
            return json.load(fh)
    except FileNotFoundError:
        return []


KNOWN = load_findings(os.path.join(os.path.dirname(os.path.dirname(os.path.abspath(__file__))), "known_findings.json"))


def match_finding(findings, prop, sig):
    for f in findings:
        if f.get("status") != "known" or f.get("property") != prop:
            continue
        m = f.get("match") or {}
        if all(sig.get(k) == v for k, v in m.items()):
            return f
    return None


def repo_func(exc):
    """name of the innermost /repo function in an exception's traceback (stable root-cause attribute)"""
    import traceback as _tb

    root = os.environ.get("VERIF_REPO_ROOT", "/repo")
    pre = (os.path.join(root, "passlib") + os.sep, os.path.join(root, "libpass") + os.sep)
    name = "?"
    for fs in _tb.extract_tb(exc.__traceback__):
        if fs.filename.startswith(pre):
            name = fs.name
    return name
