"""simkit.sched -- deterministic thread scheduler (DESIGN.md 3.4).

Real threading.Thread workers, exactly one of which holds the baton. A worker gives the baton back
at a yield point: a `line` (optionally `opcode`) trace event in a frame whose code lives under the
repository, a SimLock acquire/release, an explicit yield inside a stub, thread end. At every yield
point the scheduler -- never the OS -- decides who runs next, from the run's PRNG (strategies:
sticky walk, PCT, hot-spot, uniform) or from a recorded decision list (replay).

Frames outside the repository are not traced, so a thread is never parked inside logging, warnings,
importlib, re or hashlib. By default module-level code executed by an import runs without pre-emption (the
per-module import lock would otherwise block a second importer in C while the first is parked). With
preempt_imports=True and install_import_locks() the per-module import locks become cooperative too, and a
thread can be pre-empted in the middle of a module body while the half-built module sits in sys.modules.
"""

from __future__ import annotations

import os
import sys
import threading
import traceback


class Deadlock(Exception):
    pass


class _Worker:
    def __init__(self, sched, idx, fn):
        self.sched = sched
        self.idx = idx
        self.fn = fn
        self.sem = threading.Semaphore(0)
        self.done = False
        self.blocked_on = None
        self.result = None
        self.atomic = 0
        self.thread = threading.Thread(target=self._run, name=f"sim-{idx}", daemon=True)
        self.steps = 0

    def _run(self):
        self.sem.acquire()
        sched = self.sched
        sched._tls.worker = self
        if sched.aborted:
            return
        sys.settrace(sched._global_trace)
        try:
            self.result = self.fn(self)
        except _Abort:
            sys.settrace(None)
            return
        except BaseException as e:  # the harness's own callables catch everything; this is a harness bug
            self.result = ("harness-exc", f"{type(e).__name__}: {e}", traceback.format_exc()[-1500:])
        finally:
            sys.settrace(None)
        self.done = True
        sched._finished(self)


class _Abort(BaseException):
    pass


class Scheduler:
    def __init__(self, rng, strategy, params, repo_prefixes, max_steps=100000, hot_names=(), opcode_hot=False,
                 decisions=None, preempt_imports=False):
        self.preempt_imports = preempt_imports
        self.rng = rng
        self.strategy = strategy
        self.params = params or {}
        self.prefixes = tuple(repo_prefixes)
        self.max_steps = max_steps
        self.hot_names = set(hot_names)
        self.opcode_hot = opcode_hot
        self.workers: list[_Worker] = []
        self.current: _Worker | None = None
        self.step = 0
        self.switches: list = []  # [step, to_idx]
        self.switch_sites: list = []  # (from, to, func, rel line)
        self.hot_hits: dict[str, int] = {}
        self.main_sem = threading.Semaphore(0)
        self.deadlock = None
        self.harness_error = None
        self.import_waits = 0
        self.capped = False
        self.aborted = False
        self._tls = threading.local()
        self._code_cache: dict = {}
        self._replay = None
        if decisions is not None:
            self._replay = {int(s): int(t) for s, t in decisions}
        # PCT state
        self._prio = None
        self._change_points = None
        # hot-spot state
        self._hot_plan = list(self.params.get("plan", []))  # [(func, nth), ...]
        self._sticky_p = self.params.get("p", 0.03)
        self._parked = False
        self.park_hits = 0

    # -- setup -----------------------------------------------------------------------------------
    def spawn(self, fn):
        w = _Worker(self, len(self.workers), fn)
        self.workers.append(w)
        return w

    def current_worker(self):
        return getattr(self._tls, "worker", None)

    def run(self, timeout=50.0):
        """start all workers, hand the baton to the first pick, wait until all are done (or deadlock / cap)"""
        n = len(self.workers)
        if self.strategy == "pct":
            pr = list(range(n + 10, n + 10 + n))
            self.rng.shuffle(pr)
            self._prio = pr
            est = max(10, int(self.params.get("est_len", 500)))
            d = int(self.params.get("depth", 2))
            self._change_points = sorted(self.rng.randrange(est) for _ in range(max(0, d - 1)))
        for w in self.workers:
            w.thread.start()
        first = self._pick(None, self._runnable(), "start", None)
        self.current = first
        self.switches.append([0, first.idx])
        first.sem.release()
        ok = self.main_sem.acquire(timeout=timeout)
        if not ok:
            self.capped = True
            self.aborted = True
        return ok

    # -- tracing ---------------------------------------------------------------------------------
    def _classify(self, code):
        c = self._code_cache.get(code)
        if c is None:
            fn = code.co_filename
            if fn.startswith(self.prefixes):
                c = 2 if code.co_name == "<module>" and not self.preempt_imports else 1
                if c == 1 and code.co_name in self.hot_names:
                    c = 3
            else:
                c = 0
            self._code_cache[code] = c
        return c

    def _global_trace(self, frame, event, arg):
        if event != "call":
            return None
        c = self._classify(frame.f_code)
        if c == 0:
            return None
        if c == 2:
            w = self._tls.worker
            w.atomic += 1
            return self._module_trace
        if c == 3 and self.opcode_hot:
            frame.f_trace_opcodes = True
        return self._local_trace

    def _module_trace(self, frame, event, arg):
        if event == "return":
            w = self._tls.worker
            w.atomic -= 1
        return self._module_trace

    def _local_trace(self, frame, event, arg):
        if event == "line" or event == "opcode":
            w = self._tls.worker
            if w.atomic == 0:
                try:
                    self.yield_point(w, frame)
                except _Abort:
                    raise
                except Exception as e:
                    # an exception escaping a trace function is raised INSIDE the traced library code and would be judged
                    # as the library's behaviour: record it as a harness error and end the run instead
                    self.harness_error = f"{type(e).__name__}: {e}\n{traceback.format_exc()[-1200:]}"
                    self.aborted = True
                    self.main_sem.release()
                    self._park()
        return self._local_trace

    # -- yield points ----------------------------------------------------------------------------
    def _runnable(self):
        return [w for w in self.workers if not w.done and w.blocked_on is None]

    def _park(self):
        """the run is over (deadlock / step cap): this thread never runs again; the child process exits"""
        threading.Event().wait()

    def yield_point(self, w, frame=None, kind="line"):
        if self.aborted:
            self._park()
        self.step += 1
        w.steps += 1
        if self.step > self.max_steps:
            self.capped = True
            self.aborted = True
            self.main_sem.release()
            self._park()
        fname = frame.f_code.co_name if frame is not None else kind
        if fname in self.hot_names:
            self.hot_hits[fname] = self.hot_hits.get(fname, 0) + 1
        runnable = self._runnable()
        if len(runnable) <= 1 and w.blocked_on is None:
            return
        nxt = self._pick(w, runnable, fname, frame)
        if nxt is not w:
            self._switch(w, nxt, fname, frame)

    def _switch(self, cur, nxt, fname, frame):
        self.switches.append([self.step, nxt.idx])
        if frame is not None:
            # (an 'opcode' event on an instruction without line information has f_lineno None)
            self.switch_sites.append((cur.idx, nxt.idx, fname, (frame.f_lineno or frame.f_code.co_firstlineno) - frame.f_code.co_firstlineno))
        else:
            self.switch_sites.append((cur.idx, nxt.idx, fname, -1))
        self.current = nxt
        nxt.sem.release()
        cur.sem.acquire()
        if self.aborted:
            self._park()

    def block(self, w, lock):
        """called by SimLock when w cannot take the lock: park until it is released"""
        w.blocked_on = lock
        while w.blocked_on is not None:
            runnable = self._runnable()
            if not runnable:
                self.deadlock = [(x.idx, getattr(x.blocked_on, "name", "?")) for x in self.workers if not x.done]
                self.aborted = True
                self.main_sem.release()
                self._park()
            self.step += 1
            nxt = self._pick(w, runnable, "lock-wait", None)
            self._switch(w, nxt, "lock-wait", None)

    def _finished(self, w):
        if self.aborted:
            return
        runnable = self._runnable()
        live = [x for x in self.workers if not x.done]
        if not live:
            self.main_sem.release()
            return
        if not runnable:
            self.deadlock = [(x.idx, getattr(x.blocked_on, "name", "?")) for x in live]
            self.aborted = True
            self.main_sem.release()
            return
        self.step += 1
        nxt = self._pick(w, runnable, "thread-end", None)
        self.switches.append([self.step, nxt.idx])
        self.switch_sites.append((w.idx, nxt.idx, "thread-end", -1))
        self.current = nxt
        nxt.sem.release()

    # -- strategies ------------------------------------------------------------------------------
    def _pick(self, cur, runnable, fname, frame):
        must_switch = cur is None or cur.done or cur.blocked_on is not None or cur not in runnable
        if self._replay is not None:
            t = self._replay.get(self.step if cur is not None else 0)
            if t is not None:
                for w in runnable:
                    if w.idx == t:
                        return w
            if must_switch:
                return min(runnable, key=lambda w: w.idx)
            return cur
        rng = self.rng
        s = self.strategy
        others = [w for w in runnable if w is not cur]
        if must_switch:
            if s == "pct":
                return max(runnable, key=lambda w: self._prio[w.idx])
            if s == "park" and self._parked:
                # the parked thread comes back only when nobody else can run
                rest = [w for w in runnable if w.idx != self.params.get("victim", 0) % len(self.workers)]
                if rest:
                    return rest[rng.randrange(len(rest))]
            return runnable[rng.randrange(len(runnable))]
        if not others:
            return cur
        if s == "park":
            # one thread is stopped at a chosen step of ITS OWN and stays parked until every other thread has finished or
            # blocked ("A is in the middle of an operation while B runs a whole one"), then it resumes
            v = self.params.get("victim", 0) % len(self.workers)
            vw = self.workers[v]
            if cur is vw and not self._parked and cur.steps >= self.params.get("at", 1):
                self._parked = True
                self.park_hits += 1
                return others[rng.randrange(len(others))]
            if self._parked and cur is not vw:
                rest = [w for w in others if w is not vw]
                if rng.random() < self._sticky_p and rest:
                    return rest[rng.randrange(len(rest))]
                return cur
            if rng.random() < self._sticky_p:
                return others[rng.randrange(len(others))]
            return cur
        if s == "uniform":
            return runnable[rng.randrange(len(runnable))]
        if s == "sticky":
            if rng.random() < self._sticky_p:
                return others[rng.randrange(len(others))]
            return cur
        if s == "pct":
            while self._change_points and self._change_points[0] <= self.step:
                k = len(self._change_points)
                self._change_points.pop(0)
                self._prio[cur.idx] = k  # lower than every initial priority
            return max(runnable, key=lambda w: self._prio[w.idx])
        if s == "hotspot":
            if self._hot_plan and fname == self._hot_plan[0][0]:
                self._hot_plan[0][1] -= 1
                if self._hot_plan[0][1] <= 0:
                    self._hot_plan.pop(0)
                    return others[rng.randrange(len(others))]
            if rng.random() < self._sticky_p:
                return others[rng.randrange(len(others))]
            return cur
        raise AssertionError(s)


class SimLock:
    """cooperative stand-in for threading.Lock / RLock under the scheduler"""

    def __init__(self, sched, reentrant, name):
        self.sched = sched
        self.reentrant = reentrant
        self.name = name
        self.owner = None
        self.count = 0
        self.waiters = []
        self.acquisitions = 0
        self.contended = 0

    def acquire(self, blocking=True, timeout=-1):
        w = self.sched.current_worker()
        me = w if w is not None else "main"
        if w is not None and w.atomic == 0:
            self.sched.yield_point(w, None, "lock-acquire")
        while True:
            if self.owner is None:
                self.owner = me
                self.count = 1
                self.acquisitions += 1
                return True
            if self.owner is me and self.reentrant:
                self.count += 1
                return True
            if not blocking:
                return False
            if w is None:
                raise Deadlock(f"main thread would block on {self.name}")
            if self.owner is me:
                raise Deadlock(f"thread {w.idx} re-acquires non-reentrant {self.name}")
            self.contended += 1
            self.waiters.append(w)
            self.sched.block(w, self)

    def release(self):
        self.count -= 1
        if self.count <= 0:
            self.owner = None
            self.count = 0
            ws, self.waiters = self.waiters, []
            for x in ws:
                x.blocked_on = None
        w = self.sched.current_worker()
        if w is not None and w.atomic == 0:
            self.sched.yield_point(w, None, "lock-release")

    def __enter__(self):
        self.acquire()
        return self

    def __exit__(self, *a):
        self.release()

    def locked(self):
        return self.owner is not None


def install_import_locks(sched):
    """make importlib's per-module locks cooperative: same bookkeeping (owner, count, deadlock detection between
    importers) as importlib._bootstrap._ModuleLock, but a worker that has to wait is parked by the scheduler
    instead of blocking in C. Only the waiting step is replaced; the main thread keeps the original behaviour."""
    import _thread
    import importlib._bootstrap as b

    ML = b._ModuleLock
    if getattr(ML, "_sim_installed", False):
        ML._sim_sched = sched
        return
    orig_acquire, orig_release = ML.acquire, ML.release

    def acquire(self):
        sc = ML._sim_sched
        w = sc.current_worker() if sc is not None else None
        if w is None:
            return orig_acquire(self)
        tid = _thread.get_ident()
        with b._BlockingOnManager(tid, self):
            while True:
                with self.lock:
                    if self.count == [] or self.owner == tid:
                        self.owner = tid
                        self.count.append(True)
                        return True
                    if self.has_deadlock():
                        raise b._DeadlockError(f"deadlock detected by {self!r}")
                sc.import_waits += 1
                sc.block(w, self)

    def release(self):
        orig_release(self)
        sc = ML._sim_sched
        if sc is not None and self.owner is None:
            for x in sc.workers:
                if x.blocked_on is self:
                    x.blocked_on = None

    ML.acquire, ML.release = acquire, release
    ML._sim_installed = True
    ML._sim_sched = sched


def repo_prefixes():
    root = os.environ.get("VERIF_REPO_ROOT", "/repo")
    return (os.path.join(root, "passlib") + os.sep, os.path.join(root, "libpass") + os.sep)
