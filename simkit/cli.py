"""simkit.cli -- ./check <property> --tier quick|thorough | --replay <file> | --selftest"""

from __future__ import annotations

import argparse
import hashlib
import json
import os
import subprocess
import sys
import time

HERE = os.path.dirname(os.path.abspath(__file__))
VERIF = os.path.dirname(HERE)

# property -> (world, level, {tier: (runs, wall_cap_s, per_run_timeout_s)})
PROPS = {
    "C03": ("backends", "exploration", {"quick": (1600, 75, 60), "thorough": (40000, 1500, 90)}),
    "C04": ("credstore", "exploration", {"quick": (12000, 75, 60), "thorough": (400000, 1500, 90)}),
    "C06": ("entropy", "exploration", {"quick": (3000, 75, 60), "thorough": (60000, 1200, 90)}),
    "C08": ("credstore", "exploration", {"quick": (8000, 75, 60), "thorough": (40000, 1800, 180)}),
    "C09": ("derive", "exploration", {"quick": (2500, 75, 60), "thorough": (80000, 1800, 90)}),
    "C10": ("credstore", "fault_enumeration", {"quick": (2500, 75, 90), "thorough": (60000, 1800, 180)}),
    "C13": ("totp", "exploration", {"quick": (6000, 60, 60), "thorough": (200000, 1200, 90)}),
    "C14": ("totp", "exploration", {"quick": (6000, 60, 60), "thorough": (250000, 1500, 90)}),
    "C15": ("totp", "exploration", {"quick": (6000, 60, 60), "thorough": (200000, 1200, 90)}),
    "C16": ("htfile", "exploration", {"quick": (40000, 75, 60), "thorough": (800000, 1500, 90)}),
    "C18": ("credstore", "exploration", {"quick": (12000, 60, 60), "thorough": (400000, 1200, 90)}),
    "C19": ("lazyinit", "exploration", {"quick": (5000, 80, 60), "thorough": (150000, 1800, 120)}),
}

EXIT_OK, EXIT_VIOLATION, EXIT_HARNESS, EXIT_NOREPRO = 0, 1, 2, 3


def _reexec_if_needed():
    want = os.environ.get("VERIF_HASHSEED", "0")
    if os.environ.get("PYTHONHASHSEED") != want or os.environ.get("PYTHONDONTWRITEBYTECODE") != "1":
        env = dict(os.environ)
        env["PYTHONHASHSEED"] = want
        env["PYTHONDONTWRITEBYTECODE"] = "1"
        env.setdefault("PYTHONWARNINGS", "ignore")
        os.execve(sys.executable, [sys.executable, "-B", "-m", "simkit.cli"] + sys.argv[1:], env)


def _setup_paths():
    root = os.environ.get("VERIF_REPO_ROOT", "/repo")
    if root not in sys.path:
        sys.path.insert(0, root)
    if VERIF not in sys.path:
        sys.path.insert(0, VERIF)
    return root


def validate_evidence(ev):
    """hand-rolled check of the keys EVIDENCE.schema.json requires for exploration-style levels"""
    req = ["property_id", "tier", "seed", "level", "coverage", "wall_s"]
    for k in req:
        if k not in ev:
            raise ValueError(f"evidence: missing {k}")
    if ev["tier"] not in ("quick", "thorough"):
        raise ValueError("evidence: tier")
    if not isinstance(ev["seed"], int):
        raise ValueError("evidence: seed")
    cov = ev["coverage"]
    if not (isinstance(cov.get("evaluations"), int) and cov["evaluations"] >= 1):
        raise ValueError("evidence: evaluations")
    if not (isinstance(cov.get("distinct_nontrivial"), int) and cov["distinct_nontrivial"] >= 2):
        raise ValueError("evidence: distinct_nontrivial < 2")
    if not isinstance(cov.get("rule"), str):
        raise ValueError("evidence: rule")
    if not (isinstance(cov.get("samples"), list) and cov["samples"]):
        raise ValueError("evidence: samples")


def _trim_program(p, max_ops=14):
    q = dict(p)
    ops = q.get("ops", [])
    if len(ops) > max_ops:
        q["ops"] = ops[:max_ops] + [{"op": "...", "omitted": len(ops) - max_ops}]
    return q


def write_evidence(prop, world_mod, level, tier, seed, total, n_viol, known, budget_hit, jobs, extra_cov=None):
    runs = total["runs"]
    evals_name, evals = world_mod.evaluations(total) if hasattr(world_mod, "evaluations") else ("runs", runs)
    cov = {
        "evaluations": int(evals),
        "evaluations_unit": evals_name,
        "distinct_nontrivial": len(total["keys"]),
        "rule": world_mod.RULE.get(prop, world_mod.RULE.get("*", "")),
        "samples": [_trim_program(s["program"]) for s in total["samples"][:2]],
        "runs": runs,
        "nontrivial_runs": total["nontrivial"],
        "runs_per_hour": int(runs / max(total["wall_s"], 1e-6) * 3600),
        "first_index": total.get("first_index", 0),
        "last_index": total.get("last_index", 0),
        "seed_derivation": "run_seed_i = sha256(f'{VERIF_SEED}/{property}/{world}/{i}')[:8]",
        "ops_executed": total["ops"],
        "checks_evaluated": total["checks"],
        "sim_time_covered_s": round(total["sim_time"], 3),
        "faults_fired": dict(sorted(total["faults"].items())),
        "faults_never_fired": sorted(k for k in getattr(world_mod, "FAULT_KINDS", {}).get(prop, []) if not total["faults"].get(k)),
        "probes": dict(sorted(total["probes"].items())),
        "components": world_mod.COMPONENTS,
        "known_findings": known,
        "foreign_property_violations_seen": len(total["foreign"]),
        "runs_skipped_by_wall_cap": total["skipped"],
        "budget_hit": bool(budget_hit),
        "workers": jobs,
        "exhaustive": False,
    }
    for k, v in total["extra"].items():
        if isinstance(v, list):
            cov[k + "_count"] = len(v)
        else:
            cov[k] = v
    if extra_cov:
        cov.update(extra_cov)
    ev = {
        "property_id": prop,
        "tier": tier,
        "seed": seed,
        "level": level,
        "coverage": cov,
        "assumptions": world_mod.ASSUMPTIONS.get(prop, []) + world_mod.ASSUMPTIONS.get("*", []),
        "wall_s": round(total["wall_s"], 2),
        "violations": n_viol,
    }
    validate_evidence(ev)
    # sensitivity tooling (tools/mutate.py, tools/seeded.py) points this elsewhere so that runs against a deliberately
    # broken tree never overwrite the evidence of the unchanged tree
    edir = os.environ.get("VERIF_EVIDENCE_DIR") or os.path.join(VERIF, "evidence")
    os.makedirs(edir, exist_ok=True)
    path = os.path.join(edir, f"{prop}.json")
    os.makedirs(os.path.dirname(path), exist_ok=True)
    tmp = path + ".tmp"
    with open(tmp, "w") as fh:
        json.dump(ev, fh, indent=1, sort_keys=True)
        fh.write("\n")
    os.replace(tmp, path)
    return path


def cmd_check(args):
    from simkit import core

    prop = args.property
    world_name, level, tiers = PROPS[prop]
    tier = args.tier
    runs, wall_cap, run_timeout = tiers[tier]
    if args.runs:
        runs = args.runs
    if args.wall_cap:
        wall_cap = args.wall_cap
    seed = int(os.environ.get("VERIF_SEED", "0"))
    jobs = args.jobs or min(16, os.cpu_count() or 1)
    world_mod = core.load_world(world_name)
    if hasattr(world_mod, "prepare"):
        world_mod.prepare(prop, tier)
    print(f"check {prop} world={world_name} tier={tier} VERIF_SEED={seed} runs={runs} jobs={jobs} "
          f"repo={os.environ.get('VERIF_REPO_ROOT', '/repo')}", flush=True)
    total = core.run_batch(world_name, prop, tier, seed, runs, jobs, run_timeout, wall_cap,
                           first_index=args.first_index)
    total["first_index"] = args.first_index
    total["last_index"] = args.first_index + runs - 1
    budget_hit = total["skipped"] > 0

    findings = core.load_findings(os.path.join(VERIF, "known_findings.json"))
    # group violations by signature
    groups = {}
    for v in total["violations"]:
        sig = core.signature(world_name, v["violation"])
        groups.setdefault(core.cjson(sig), []).append(v)
    exit_code = EXIT_OK
    known_out = []
    n_new = 0
    for fid, n in sorted(total["known"].items()):
        f = next(x for x in findings if x["id"] == fid)
        print(f"KNOWN-FINDING: property={prop} {fid}: {f['what']} ({n} runs)", flush=True)
        known_out.append({"id": fid, "runs": n})
    for sigkey in sorted(groups):
        vs = groups[sigkey]
        sig = json.loads(sigkey)
        f = core.match_finding(findings, prop, sig)
        if f is not None:
            print(f"KNOWN-FINDING: property={prop} {f['id']}: {f['what']} ({len(vs)} runs)", flush=True)
            known_out.append({"id": f["id"], "runs": len(vs)})
            continue
        n_new += len(vs)
        v = min(vs, key=lambda x: (len(x["program"].get("ops", [])), x["index"]))
        prog, spent = core.shrink(world_mod, v["program"], prop, sig, budget=args.shrink_budget,
                                  timeout=run_timeout)
        out = core.run_program(world_mod, prog, prop, timeout=run_timeout)
        if not out.get("violation") or core.signature(world_name, out["violation"]) != sig:
            # shrinker result does not reproduce (should not happen): fall back to the original
            prog = v["program"]
            out = core.run_program(world_mod, prog, prop, timeout=run_timeout)
        if "harness_error" in out or not out.get("violation"):
            print(f"HARNESS-ERROR property={prop} violation at index {v['index']} did not re-execute: {out}", flush=True)
            exit_code = max(exit_code, EXIT_HARNESS) if exit_code != EXIT_VIOLATION else exit_code
            continue
        d8 = hashlib.sha1(sigkey.encode()).hexdigest()[:8]
        path = os.path.join(VERIF, "replays", f"{prop}-{seed}-{v['index']}-{d8}.json")
        os.makedirs(os.path.dirname(path), exist_ok=True)
        with open(path, "w") as fh:
            json.dump({
                "format": core.FORMAT, "property": prop, "world": world_name, "verif_seed": seed,
                "run_index": v["index"], "run_seed": v["run_seed"], "program": prog,
                "violation": {"invariant": out["violation"]["invariant"], "signature": sig,
                              "detail": out["violation"]["detail"], "trace_digest": out["digest"]},
                "runs_with_this_signature": len(vs), "shrink_executions": spent,
                "original_ops": len(v["program"].get("ops", [])),
            }, fh, indent=1, sort_keys=True)
            fh.write("\n")
        print(f"VIOLATION property={prop} replay={path}", flush=True)
        print(f"  invariant={sig['invariant']} signature={sigkey}", flush=True)
        print(f"  detail: {out['violation']['detail'][:600]}", flush=True)
        exit_code = EXIT_VIOLATION
    for e in total["errors"][:5]:
        print(f"HARNESS-ERROR property={prop} run={e['index']}: {e['error']}\n{e.get('traceback', '')}", flush=True)
    if total["errors"] and exit_code == EXIT_OK:
        exit_code = EXIT_HARNESS
    if total["foreign"]:
        by = {}
        for f in total["foreign"]:
            k = f"{f['violation']['property']}/{f['violation']['invariant']}"
            by[k] = by.get(k, 0) + 1
        print(f"note: {len(total["foreign"])} runs also tripped an invariant of another property "
              f"(not judged here): {by}", flush=True)
    if total["runs"] == 0:
        print(f"HARNESS-ERROR property={prop} no run completed", flush=True)
        return EXIT_HARNESS
    try:
        path = write_evidence(prop, world_mod, level, tier, seed, total, n_new, known_out, budget_hit, jobs)
    except Exception as e:
        print(f"HARNESS-ERROR property={prop} evidence not written: {e}", flush=True)
        return exit_code or EXIT_HARNESS
    print(f"done {prop}: runs={total['runs']} ops={total['ops']} checks={total['checks']} "
          f"distinct={len(total['keys'])} wall={total['wall_s']:.1f}s skipped={total['skipped']} "
          f"violations={n_new} known={len(known_out)} evidence={path}", flush=True)
    return exit_code


def cmd_replay(args):
    from simkit import core

    with open(args.replay) as fh:
        rp = json.load(fh)
    prop = rp["property"]
    if args.property and args.property != prop:
        print(f"replay file is for {prop}, not {args.property}")
        return EXIT_HARNESS
    world_mod = core.load_world(rp["world"])
    if hasattr(world_mod, "prepare"):
        world_mod.prepare(prop, "quick")
    out = core.run_program(world_mod, rp["program"], prop, timeout=120, trace=args.trace)
    if "harness_error" in out:
        print(f"HARNESS-ERROR property={prop} replay: {out['harness_error']}\n{out.get('traceback', '')}")
        return EXIT_HARNESS
    if args.trace:
        for e in out.get("events", []):
            print("  ", e[:400])
    want = rp["violation"]["signature"]
    if out.get("violation") and core.signature(rp["world"], out["violation"]) == want:
        same_digest = out["digest"] == rp["violation"]["trace_digest"]
        print(f"VIOLATION property={prop} replay={os.path.abspath(args.replay)}")
        print(f"  reproduced: invariant={out['violation']['invariant']} trace_digest_equal={same_digest}")
        print(f"  detail: {out['violation']['detail'][:1000]}")
        return EXIT_VIOLATION
    if out.get("known_hits"):
        # the replay belongs to a finding recorded in known_findings.json: the run continues past it, as in a check
        for fid in sorted(out["known_hits"]):
            print(f"KNOWN-FINDING: property={prop} {fid} reproduced by replay={args.replay}")
        return EXIT_OK
    print(f"NOT-REPRODUCED property={prop} replay={args.replay} got={out.get('violation')}")
    return EXIT_NOREPRO


def cmd_selftest(args):
    """determinism: same run indices twice -- other worker count, other PYTHONHASHSEED, fresh
    interpreter -- must give identical trace digests"""
    from simkit import core

    prop = args.property
    world_name, level, tiers = PROPS[prop]
    seed = int(os.environ.get("VERIF_SEED", "0"))
    n = args.runs or 300
    if args.emit_digests:
        world_mod = core.load_world(world_name)
        if hasattr(world_mod, "prepare"):
            world_mod.prepare(prop, args.tier)
        total = core.run_batch(world_name, prop, args.tier, seed, n, args.jobs or 3, 120, 0, want_digests=True)
        print("DIGESTS " + json.dumps({"digests": total["digests"], "errors": total["errors"]}))
        return 0
    world_mod = core.load_world(world_name)
    if hasattr(world_mod, "prepare"):
        world_mod.prepare(prop, args.tier)
    total = core.run_batch(world_name, prop, args.tier, seed, n, 16, 120, 0, want_digests=True)
    env = dict(os.environ)
    hs = os.environ.get("VERIF_SELFTEST_HASHSEED", "4242")
    env["VERIF_HASHSEED"] = hs
    env["PYTHONHASHSEED"] = hs
    p = subprocess.run([sys.executable, "-B", "-m", "simkit.cli", prop, "--selftest", "--emit-digests",
                        "--runs", str(n), "--jobs", "3", "--tier", args.tier], env=env, cwd=VERIF,
                       capture_output=True, text=True, timeout=3600)
    line = [l for l in p.stdout.splitlines() if l.startswith("DIGESTS ")]
    if not line:
        print(f"HARNESS-ERROR selftest child failed: {p.stdout[-2000:]} {p.stderr[-2000:]}")
        return EXIT_HARNESS
    other = json.loads(line[0][8:])
    a = {str(k): v for k, v in total["digests"].items()}
    b = other["digests"]
    diff = sorted(k for k in set(a) | set(b) if a.get(k) != b.get(k))
    errs = total["errors"] + other["errors"]
    print(f"selftest {prop}: {len(a)} runs x 2 (16 workers/hashseed {os.environ.get('PYTHONHASHSEED')} vs 3 workers/hashseed {hs}, fresh interpreter); "
          f"differing digests: {len(diff)}; harness errors: {len(errs)}")
    if diff or errs:
        print("HARNESS-ERROR nondeterministic runs:", diff[:20], errs[:3])
        return EXIT_HARNESS
    return 0


def main():
    import logging

    logging.disable(logging.CRITICAL)  # the library logs through the root logger; keep check output clean
    ap = argparse.ArgumentParser(prog="check")
    ap.add_argument("property", nargs="?")
    ap.add_argument("--tier", default=os.environ.get("VERIF_TIER", "quick"), choices=["quick", "thorough"])
    ap.add_argument("--replay")
    ap.add_argument("--trace", action="store_true")
    ap.add_argument("--selftest", action="store_true")
    ap.add_argument("--emit-digests", action="store_true")
    ap.add_argument("--runs", type=int)
    ap.add_argument("--first-index", type=int, default=0)
    ap.add_argument("--jobs", type=int)
    ap.add_argument("--wall-cap", type=float)
    ap.add_argument("--shrink-budget", type=int, default=300)
    args = ap.parse_args()
    _setup_paths()
    if args.replay:
        return cmd_replay(args)
    if not args.property or args.property not in PROPS:
        print(f"unknown or unclaimed property {args.property!r}; claimed: {sorted(PROPS)}")
        return EXIT_HARNESS
    if args.selftest:
        return cmd_selftest(args)
    return cmd_check(args)


if __name__ == "__main__":
    _reexec_if_needed()
    sys.exit(main())
